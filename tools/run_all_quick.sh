#!/bin/bash
# runs every check's quick command once (as MANIFEST registers them) and prints one summary line each
cd "$(dirname "$0")/.."
for p in C01 C02 C03 C04 C05 C06 C07 C08 C09 C10 C11 C12 C13 C14 C15 C16 C17 C18; do
  s=$(date +%s); out=$(bin/check $p --tier ${TIER:-quick} 2>&1); code=$?; e=$(date +%s)
  echo "$p exit=$code wall=$((e-s))s $(echo "$out" | grep -c '^VIOLATION') violations $(echo "$out" | grep -c '^INCONCLUSIVE') inconclusive $(echo "$out" | grep -c '^HARNESS-ERROR') harness-errors"
done
