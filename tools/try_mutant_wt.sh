#!/bin/bash
# usage: try_mutant_wt.sh <seeded_id> <check ids...>
# Like try_mutant.sh but leaves /repo alone: applies the patch in a scratch worktree and points the checks at it
# through PYTHONPATH (the checks themselves are unchanged; without that variable they analyse /repo).
ID=$1; shift
TIER=${TIER:-quick}
WT=/tmp/wt/mut_$$
git -C /repo worktree add -q --detach $WT HEAD || exit 2
# the checks rewrite evidence/<id>.json on every run: put the unchanged tree's evidence back afterwards
trap 'git -C /repo worktree remove --force '$WT'; git -C /verif checkout -q -- evidence' EXIT
git -C $WT apply /verif/seeded/$ID/patch.diff || { echo "patch does not apply"; exit 2; }
for c in "$@"; do
  out=$(cd /verif && PYTHONPATH=$WT bin/check $c --tier $TIER 2>&1); code=$?
  echo "== $ID vs $c ($TIER): exit=$code  $(echo "$out" | grep -c '^VIOLATION') violation line(s)"
  echo "$out" | grep -A2 '^VIOLATION' | head -3 | cut -c1-300
  echo "$out" | grep -E '^(HARNESS-ERROR|INCONCLUSIVE)' | head -2 | cut -c1-300
done
