#!/usr/bin/env python3
"""Adds 'breaks_property' / 'caught_by_quick_checks' / 'strengthening' to every seeded/<id>/meta.json (results of tools/try_mutant*.sh runs)."""
import json, os
HERE = os.path.dirname(os.path.dirname(os.path.abspath(__file__)))
EXTRA = {  # checks other than the own property's that were also run and reported a violation
    "C01-m1": ["C05", "C06"], "C01-m2": ["C05"], "C01-m3": ["C06"], "C01-m4": ["C06"], "C04-m1": ["C05"], "C04-m2": ["C05"],
    "C05-m1": ["C06"], "C06-m5": ["C05"], "C06-m2": ["C05"], "C06-m3": ["C05"], "C07-m3": ["C05"], "C08-m2": ["C02"], "C09-m1": ["C08"], "C09-m2": ["C08"], "C09-m3": ["C08"],
}
STRENGTHENED = {
    "C06-m2": "missed by the one-operation step harness; caught after multi-operation batches (hexbatch) were added to C06",
    "C08-m2": "missed while C08 only used oracle-built tries; caught after history-built tries were added",
    "C09-m2": "missed until the traverse_from(root_node, prefix) navigation mode was added",
    "C11-m1": "missed until mixed-length sub-segment lists were added to the second-operation grammar",
    "C13-m1": "missed until the foreign-trie branch forgery was added",
    "C14-m1": "needs three operations; caught by the targeted 3-operation obligation added to the quick tier",
    "C12-m2": "needs three operations; caught by the targeted 3-operation obligation of the quick tier",
    "C12-m3": "caught by a third targeted 3-operation obligation (delete of an absent prefix key), added for it",
    "C14-m3": "missed until h_smt also cleared a key through the re-opened (from_db) tree",
    "C04-m3": "missed by C04 and C05; caught by C04 after the batch2 mode (a committed batch precedes the measured one)",
    "C04-m4": "missed by C04 and C05; caught by C04 after the batch_recreate mode",
    "C07-m3": "missed by C07 (caught by C05); caught by C07 after the freshly-opened pruning trie / two-write batch configuration",
    "C11-m4": "missed until mixed-length lists with an exact duplicate were added",
    "C13-m3": "needs a stored value equal to a node hash; obligation with 32-byte values + concretisation with real hashes added",
    "C13-m4": "caught after the truncated branch was also offered with an absence claim",
    "C15-m3": "not encodable (float log2) and outside the tree bounds; caught by the native boundary run of the tree-free update() obligation for 8-byte keys",
    "C16-m3": "caught after the is_*_node helper-agreement obligation was added",
    "C16-m4": "caught after the unequal-children obligation for encode_branch_node was added",
    "C18-m4": "caught after Nibbles concatenation entry points were added",
    "C07-m4": "missed while the harness only retried the failed call; caught after a different write on the same object follows the first failure",
    "C12-m6": "first inconclusive (interpreter gave up on None == bytes); now modelled, and reported by the adjacent-key native boundary run",
    "C15-m5": "needed the known image keccak(b'') = BLANK_HASH in Engine L's hash model to tell BLANK_HASH from BLANK_NODE_HASH",
    "C01-m6": "found by the solver through the symbolic value-content step added to C01 (exists / in on a 32-byte symbolic value)",
    "C16-m5": "caught after the odd-length obligation for nibbles_to_bytes was added",
    "C17-m4": "caught after half of the partitions abort with a BaseException that is not an Exception",
    "C10-m5": "caught by the iterator re-use obligation that had been added after the same idea could not be re-confirmed in wave 2",
    "C14-m4": "needs set;set;set with equal values; second targeted 3-operation obligation added to the quick tier",
}
for d in sorted(os.listdir(os.path.join(HERE, "seeded"))):
    mp = os.path.join(HERE, "seeded", d, "meta.json")
    if not os.path.isfile(mp):
        continue
    m = json.load(open(mp))
    own = d.split("-")[0]
    m["breaks_property"] = own
    m["caught_by_quick_checks"] = [own] + EXTRA.get(d, [])
    if d in STRENGTHENED:
        m["strengthening"] = STRENGTHENED[d]
    m["how_to_rerun"] = f"tools/try_mutant_wt.sh {d} {own}"
    json.dump(m, open(mp, "w"), indent=1)
print("annotated", len([d for d in os.listdir(os.path.join(HERE, 'seeded')) if os.path.isdir(os.path.join(HERE, 'seeded', d))]))
