#!/bin/bash
# usage: confirm_mutant.sh <worktree> <mutant_dir> <seeded_id>
# Confirms in the scratch worktree: demo passes clean, fails with the patch, test suite unchanged (215 passed).
# On success copies patch.diff, demo.py, meta.json to /verif/seeded/<seeded_id>/ and records what was run.
set -u
WT=$1; M=$2; ID=$3
cd "$WT" || exit 2
git checkout -q -- trie
run() { PYTHONPATH="$WT" /venv/bin/python "$@"; }
run "$M/demo.py" >/tmp/cm_clean.out 2>&1; c=$?
git apply "$M/patch.diff" || { echo "patch does not apply"; exit 2; }
run "$M/demo.py" >/tmp/cm_mut.out 2>&1; m=$?
t=$(PYTHONPATH="$WT" /venv/bin/python -m pytest -q -p no:cacheprovider --timeout=900 --continue-on-collection-errors -n 8 2>&1 | tail -1)
git checkout -q -- trie
echo "demo clean exit=$c; demo mutant exit=$m; tests: $t"
if [ $c -eq 0 ] && [ $m -ne 0 ] && echo "$t" | grep -q "215 passed"; then
  mkdir -p /verif/seeded/$ID
  cp "$M/patch.diff" "$M/demo.py" /verif/seeded/$ID/
  python3 - "$M/meta.json" "$ID" "$c" "$m" "$t" <<'PY'
import json,sys
src,ID,c,m,t=sys.argv[1:]
try: meta=json.load(open(src))
except Exception: meta={}
meta["confirmed_by_main_session"]={"demo_exit_clean":int(c),"demo_exit_with_patch":int(m),"test_suite_with_patch":t.strip(),
  "ran":["demo.py on clean worktree","git apply patch.diff","demo.py","pytest -n 8 full suite","git checkout -- trie"]}
json.dump(meta,open(f"/verif/seeded/{ID}/meta.json","w"),indent=1)
PY
  echo "CONFIRMED -> /verif/seeded/$ID"
else
  echo "NOT CONFIRMED"; tail -n 3 /tmp/cm_clean.out; tail -n 3 /tmp/cm_mut.out
fi
