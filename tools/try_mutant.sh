#!/bin/bash
# usage: try_mutant.sh <seeded_id> <check ids...>   applies seeded/<id>/patch.diff to /repo, runs the quick checks, reverts
ID=$1; shift
TIER=${TIER:-quick}
cd /repo && git apply /verif/seeded/$ID/patch.diff || { echo "patch does not apply to /repo"; exit 2; }
trap 'cd /repo && git checkout -q -- . ' EXIT
for c in "$@"; do
  out=$(cd /verif && bin/check $c --tier $TIER 2>&1); code=$?
  echo "== $ID vs $c ($TIER): exit=$code  $(echo "$out" | grep -c '^VIOLATION') violation line(s)"
  echo "$out" | grep -A2 '^VIOLATION' | head -6 | cut -c1-300
  echo "$out" | grep -E '^(HARNESS-ERROR|INCONCLUSIVE)' | head -3 | cut -c1-300
done
