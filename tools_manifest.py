#!/usr/bin/env python3
"""Regenerates MANIFEST.json from the table below (run by hand after adding a check)."""
import json, os
HERE = os.path.dirname(os.path.abspath(__file__))
props = [json.loads(l) for l in open(os.path.join(HERE, "properties.jsonl"))]

# id -> (engine, technique, level text, level_note, design_ref)
CHECKS = {
    "C17": ("X", "symbolic execution (CrossHair+z3) of ScratchDB through its API; path-tree exhaustion per partition; native replay of counterexamples",
            "Bounded symbolic model checking: every batch of <=2 (quick) / <=3 (thorough) operations over 3 keys with symbolic values, symbolic do_deletes and symbolic abort position is executed on the real ScratchDB and compared with a last-write-wins model; the solver exhausts all paths.",
            "Trusts CrossHair's model of dict/int, CPython, z3. Wrapped db is a non-failing dict. Outside the bound: longer batches, >3 keys.", "4/C17"),
}
L_NOTE = "Trusts CPython, z3 5.1, the pylift interpreter (vf/pylift/core.py; guarded by native execution of every path's witness and native replay of every counterexample), and the stated stubs: keccak as injective uninterpreted functions with shape/length tags (no collisions), eth_utils.to_int as big-endian value, cytoolz partition/partition_all and built-ins by their Python semantics. Bounds (key sizes, history lengths, value length classes) are enumerated; everything outside them is not claimed."
X_NOTE = "Trusts CPython, CrossHair 0.0.110's models of built-ins, z3 5.1, pyrlp/eth-hash as installed, the independent oracle vf/oracle/mpt.py (validated on two ethereum/tests vectors). Stored keys/values come from finite pools chosen by symbolic indices (exhausted by the solver-driven path search); pre-states are oracle-built canonical states, longer histories are covered by induction over single steps while contents stay in the family. Everything outside the stated bounds is not claimed."
CHECKS.update({
    "C01": ("X", "symbolic execution (CrossHair+z3): solver-exhausted one-step transitions from every canonical state of a contents family + genuinely symbolic lookup keys on canonical tries; native replay",
            "Bounded symbolic model checking of map semantics: every pool operation (method/dict syntax, direct or batched, prune on/off) from every canonical state of the family, batches committed/aborted, get/exists/in for a symbolic byte-string key (<=3/4 bytes) on every trie of the query family, and a set() whose 32-byte value content is symbolic.", X_NOTE, "4/C01"),
    "C02": ("X", "symbolic execution (CrossHair+z3): solver-exhausted one-step transitions, root compared with an independent Yellow-Paper MPT implementation",
            "Bounded symbolic model checking: after every pool operation from every canonical state the root equals the Yellow-Paper root of the updated contents (values targeted at RLP lengths 31/32/33, plus steps whose value content is a symbolic byte string with keccak replaced by an injective interning function on both sides); history/order/batching/pruning independence by induction.", X_NOTE, "4/C02"),
    "C05": ("X", "symbolic execution (CrossHair+z3): batch contents, exit kind, abort position and failing commit write are symbolic and exhausted; all-or-nothing specification checked natively on each path",
            "Bounded symbolic model checking / fault enumeration by solver: batches of <=2 (3) operations from canonical states, normal exit, exception after every operation, every commit write failing; root, db, ref counts and later behaviour compared with the specification.", X_NOTE, "4/C05"),
    "C06": ("X", "symbolic execution (CrossHair+z3): solver-exhausted one-step transitions and batches on pruning tries; db and ref counts compared with the oracle's exact live-node set and true counts",
            "Bounded symbolic model checking: exactness of the pruning database and of the reference counts is an inductive invariant checked for every pool operation / batch from every canonical state of the family (shared hashed subtrees, threshold values, no-op updates included).", X_NOTE, "4/C06"),
    "C03": ("X", "symbolic execution (CrossHair+z3): symbolic proof key through get_proof/get_from_proof; forged proofs (withheld subsets, swaps, duplicates, foreign nodes, foreign root) chosen by symbolic ints and exhausted by the solver",
            "Bounded symbolic model checking: completeness for a symbolic byte-string key on every trie of the family; soundness for every corruption of the bounded corruption grammar: result is BadTrieProof or the value the trie with the claimed root holds, and BadTrieProof whenever a hashed path node is withheld.", X_NOTE, "4/C03"),
    "C08": ("X", "symbolic execution (CrossHair+z3): symbolic nibble path (and split position) through traverse / traverse_from on canonical and history-built tries, compared with an independent canonical-node oracle",
            "Bounded symbolic model checking: for every trie of the family and a symbolic nibble path of length <= 8, traverse returns exactly the canonical node / blank / TraversedPartialPath description (incl. simulated node and raw body); traverse_from composes with traverse at every split position with <= 1 db read per hop.", X_NOTE, "4/C08"),
    "C10": ("X", "symbolic execution (CrossHair+z3): symbolic successor query through NodeIterator.next; keys/items/values/nodes compared with the sorted contents and the canonical pre-order",
            "Bounded symbolic model checking: next(k) equals the strict successor for a symbolic byte string k on every trie of the family; keys/items/values are exactly the sorted contents; nodes() is the pre-order of the canonical trie and agrees with traverse().", X_NOTE, "4/C10"),
    "C04": ("X", "symbolic execution (CrossHair+z3): operation chosen by symbolic indices, failing database write position a symbolic int decided by the solver at every write; append-only / content-addressed / old-roots-readable checked on each path",
            "Bounded symbolic model checking with solver-enumerated fault positions: two tries share one database; every pool operation (direct, one-op batch, batch after an earlier batch, batch that re-creates the other trie's nodes) with every failing write position leaves all earlier entries intact, new entries hash-keyed, every earlier root (fresh trie, at_root, second view) fully readable, the current root readable.", X_NOTE, "4/C04"),
    "C07": ("X", "symbolic execution (CrossHair+z3): one symbolic bool per node body, decided lazily by the solver at the first read of that node; reported hash / prefix / atomicity / retry convergence checked against the canonical-tree oracle",
            "Bounded symbolic model checking over all subsets of missing nodes (split lazily by the solver along each operation's route): get/exists/set/delete/traverse/traverse_from, inside and outside squash_changes, prune on/off (incl. a pruning trie freshly opened on the database), with the retry-after-supplying-the-reported-node loop and with a different write following the first failure.", X_NOTE, "4/C07"),
    "C09": ("X", "symbolic execution (CrossHair+z3): the walk schedule (fog query kind, query key, interleaved mutations) is a symbolic list exhausted by the solver; each schedule runs natively against the real trie/fog/cache",
            "Bounded symbolic model checking over schedules of <=3 (4) events: termination within a step bound, exact contents met on an unchanging trie, every constant key met and nothing met that was never stored under mutations; 4 navigation configurations.", X_NOTE, "4/C09"),
    "C11": ("X", "symbolic execution (CrossHair+z3): second operation, its arguments and query keys are symbolic indices exhausted by the solver from (a sample of) all antichains reachable by one explore(); set-model oracle",
            "Bounded symbolic model checking of HexaryTrieFog against a set model: explore / mark_all_complete / commuting explorations / mixed-length rejection / nearest_unknown / nearest_right / immutability / serialisation round trip.", X_NOTE, "4/C11"),
    "C18": ("X", "symbolic execution (CrossHair+z3): the ill-typed argument is a symbolic value of a union type (type and value chosen by the solver), wrong sizes are symbolic lengths / ints, executed through every listed entry point",
            "Bounded symbolic model checking: 49 + 13 + 13 entry points; refusal with the stated exception type, snapshot equality of all structures afterwards, and a fixed valid continuation giving the results of a twin run without the refused call.", X_NOTE, "4/C18"),
    "C14": ("L", "AST-to-SMT symbolic interpretation of trie/smt.py (pylift): keys as bit-vectors, values/default as uninterpreted atoms, keccak as injective UFs; z3 unsat of the negated property per merged path + coverage closure; native replay of models",
            "Bounded symbolic model checking: for key_size 1 (<=2-3 ops) and 2 (1-2 ops), all keys / query keys / values at once: get/exists/branch/calc_root/returned hashes/from_db agree with 'last write or default', clearing restores the initial root, write order is irrelevant.", L_NOTE, "4/C14"),
    "C15": ("L", "AST-to-SMT symbolic interpretation of SparseMerkleProof + SparseMerkleTree (pylift); one path per divergence bit, coverage closure; z3 unsat per path; native replay",
            "Bounded symbolic model checking: streams of 1-2 (3) updates over symbolic tracked / update keys keep value, branch and root equal to the tree; every truncation length of the hash list is accepted iff it reaches the first differing bit, else ValidationError with the proof unchanged.", L_NOTE, "4/C15"),
    "C16": ("L", "AST-to-SMT symbolic interpretation of trie/utils/nibbles.py, binaries.py, nodes.py (pylift): every nibble/bit/byte a bit-vector, one z3 query per length; native replay",
            "Bounded symbolic model checking, exhaustive in the contents for every length up to the bound: HP == Yellow Paper formula and round trip, bytes<->nibbles, bit strings, key-path packing, binary node encode/parse and rejection, hexary node classification, prefix kernels, nibble tables == closed forms.", L_NOTE, "4/C16"),
    "C12": ("L", "AST-to-SMT symbolic interpretation of trie/binary.py + node helpers (pylift): every key bit symbolic, one merged path per trie shape, coverage closure; z3 unsat per path; native replay",
            "Bounded symbolic model checking: 2-operation (quick) / 3-operation (thorough) histories of set / delete / delete_subtrie over 1- and 2-byte symbolic keys against the map model with the NodeOverrideError rule, unchanged state on refusal, blank root iff empty, order independence and delete-restores-root.", L_NOTE, "4/C12"),
    "C13": ("L", "AST-to-SMT symbolic interpretation of trie/branches.py over tries built by the interpreted BinaryTrie (pylift): stored keys, query key, prefix and suffix symbolic; z3 unsat per path + coverage closure; native replay",
            "Bounded symbolic model checking: get_branch refusal rule and validation, non-validation of wrong answers / truncated / other-key / foreign-trie branches, check_if_branch_exist iff a stored key has the prefix, get_trie_nodes == reachable set, witness sufficiency for every key below a prefix.", L_NOTE, "4/C13"),
})
NOT_YET = "check not built yet in this round (see DESIGN.md section 4 for the plan); not claimed"

m = {
    "version": 1,
    "setup_cmd": "bin/setup",
    "hooks": {"guard": "PY_TRIE_VERIF", "enable": "no source hooks: stubs and fault-injecting wrappers are applied from outside (attributes on imported modules, dict subclasses passed as db); bin/check exports PY_TRIE_VERIF=1 for uniformity",
              "baseline_off_cmd": "cd /repo && /venv/bin/python -m pytest -ra -q -p no:cacheprovider --timeout=900 --continue-on-collection-errors",
              "source_commits": [], "add_only": True},
    "engines": [
        {"name": "X", "path": "vf/xengine.py", "serves_properties": sorted(k for k, v in CHECKS.items() if "X" in v[0]),
         "kind_free_text": "CrossHair 0.0.110 symbolic execution of the unmodified py-trie classes through their public API, z3 deciding every branch; verdict = exhaustion of the path tree per partition; counterexamples replayed natively"},
        {"name": "L", "path": "vf/pylift", "serves_properties": sorted(k for k, v in CHECKS.items() if "L" in v[0]),
         "kind_free_text": "pylift: merging symbolic interpreter from the live Python AST of py-trie functions to z3 (bit-vectors for key bits/nibbles, uninterpreted sort + injective UF for keccak); unsat of the negated property per path + coverage closure"},
    ],
    "checks": [],
    "not_applicable": [],
    "notes": "All checks: `bin/check <ID> --tier quick|thorough`; exit 0 ok / 1 VIOLATION / 3 harness error (never a VIOLATION line). Known findings: known_findings.json.",
}
for p in props:
    pid = p["id"]
    if pid in CHECKS:
        eng, tech, text, note, ref = CHECKS[pid]
        m["checks"].append({
            "property_id": pid,
            "quick_cmd": f"bin/check {pid} --tier quick",
            "thorough_cmd": f"bin/check {pid} --tier thorough",
            "evidence_file": f"evidence/{pid}.json",
            "replay_cmd_template": f"bin/check {pid} --replay {{path}}",
            "engine": eng,
            "level_claimed": {"category": "model_checking", "text": text, "design_ref": "DESIGN.md section " + ref},
            "level_note": note,
            "technique": tech,
        })
    else:
        m["not_applicable"].append({"property_id": pid, "reason": NOT_YET})
json.dump(m, open(os.path.join(HERE, "MANIFEST.json"), "w"), indent=1)
print("checks:", [c["property_id"] for c in m["checks"]])
