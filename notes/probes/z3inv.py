# bytes == list of opaque atoms (uninterpreted sort U) with concrete chunk lengths; keccak == UF per shape; EUF + small BV keys
import z3, time, sys, itertools
KS = int(sys.argv[1]); NOPS = int(sys.argv[2])
D = 8 * KS
U = z3.DeclareSort("U")
H1 = z3.Function("H1", U, U); H2 = z3.Function("H2", U, U, U)
calls = []
def keccak(node):
    r = H1(node[0]) if len(node) == 1 else H2(node[0], node[1]); calls.append((node, r)); return r
class DB:
    def __init__(self): self.e = []
    def set(self, k, v): self.e.append((k, v))
    def get(self, k, shape):
        val = None; found = z3.BoolVal(False)
        for (ek, ev) in self.e:
            if len(ev) == shape:
                val = list(ev) if val is None else [z3.If(ek == k, a, b) for a, b in zip(ev, val)]
                found = z3.Or(ek == k, found)
        other = z3.Or([ek == k for (ek, ev) in self.e if len(ev) != shape] + [z3.BoolVal(False)])
        return z3.And(found, z3.Not(other)), val
s = z3.Solver()
default = z3.Const("default", U)
db = DB()
node = [default]
for _ in range(D):
    h = keccak(node); db.set(h, node); node = [h, h]
root = keccak(node); db.set(root, node)
def bitof(key, j): return z3.Extract(j, j, key) == 1
def _get(root, key):
    branch = []; node_hash = root; conds = []
    for i in range(D):
        f, node = db.get(node_hash, 2); conds.append(f)
        left, right = node
        bit = bitof(key, D - 1 - i)
        branch.append(z3.If(bit, left, right)); node_hash = z3.If(bit, right, left)
    f, val = db.get(node_hash, 1); conds.append(f)
    return val[0], branch, z3.And(conds)
def set_(root, key, value):
    _, branch, ok = _get(root, key)
    node = [value]; upd = []
    for j, sib in enumerate(reversed(branch)):
        h = keccak(node); upd.append(h); db.set(h, node)
        bit = bitof(key, j)
        node = [z3.If(bit, sib, h), z3.If(bit, h, sib)]
    r = keccak(node); db.set(r, node)
    return r, ok, list(reversed(upd))
def calc_root(key, value, branch):
    h = keccak([value])
    for j, sib in enumerate(reversed(branch)):
        bit = bitof(key, j)
        h = keccak([z3.If(bit, sib, h), z3.If(bit, h, sib)])
    return h
keys = [z3.BitVec(f"k{i}", D) for i in range(NOPS)]; vals = [z3.Const(f"v{i}", U) for i in range(NOPS)]
oks = []
for k, v in zip(keys, vals):
    root, ok, upd = set_(root, k, v); oks.append(ok)
q = z3.BitVec("q", D)
val, branch, ok = _get(root, q); oks.append(ok)
spec = default
for k, v in zip(keys, vals): spec = z3.If(q == k, v, spec)
cr = calc_root(q, val, branch)
ax = []
I1 = z3.Function("I1", U, U); I2a = z3.Function("I2a", U, U); I2b = z3.Function("I2b", U, U); tag = z3.Function("tag", U, z3.IntSort())
for (x, r) in calls:
    if len(x) == 1: ax += [I1(r) == x[0], tag(r) == 1]
    else: ax += [I2a(r) == x[0], I2b(r) == x[1], tag(r) == 2]
s.add(ax)
print("KS", KS, "ops", NOPS, "keccak calls", len(calls), "axioms", len(ax), "db entries", len(db.e), flush=True)
for name, goal in [("no KeyError", z3.And(oks)), ("get==spec", val == spec), ("calc_root==root", cr == root)]:
    s.push(); s.add(z3.Not(goal)); t = time.time(); r = s.check(); print(" ", name, r, f"{time.time()-t:.1f}s", flush=True); s.pop()
