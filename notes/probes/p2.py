import eth_hash.auto
from trie import HexaryTrie

class ModelHash:
    """injective interning stub for keccak256: distinct preimages -> distinct 32-byte tokens"""
    def __init__(self):
        self.table = []
    def __call__(self, data):
        data = bytes(data) if isinstance(data, bytearray) else data
        for pre, tok in self.table:
            if pre == data:
                return tok
        tok = b"\xAA" * 30 + len(self.table).to_bytes(2, "big")
        self.table.append((data, tok))
        return tok

def install():
    mh = ModelHash()
    eth_hash.auto.keccak.hasher = mh
    return mh

def set_get(v: bytes) -> bool:
    """
    pre: 1 <= len(v) <= 40
    post: _
    """
    install()
    t = HexaryTrie({})
    t.set(b"\x12\x34", v)
    t.set(b"\x12\x35", b"other")
    return t.get(b"\x12\x34") == v and t.get(b"\x12\x35") == b"other" and t.get(b"\x12\x36") == b""
