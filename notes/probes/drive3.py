import sys, time, z3, collections
import pylift0 as L, hbin
L.INTERP_MODULES.add("hbin")
from drive import mk_engine, atom, key

def two():
    e = mk_engine()
    k1, k2, q = key("k1", 1), key("k2", 1), key("q", 1)
    v1, v2 = atom("v1", 2), atom("v2", 2)
    def body(eng):
        ip = L.Interp(eng)
        try: return ("ok", ip.call(hbin.h_two, [k1, v1, k2, v2, q]))
        except L.Raised as r: return ("raised", type(r.exc).__name__)
    t0 = time.time(); paths = e.explore(body); kinds = collections.Counter(); bad = []
    K1, K2, Q = k1.ch[0][2], k2.ch[0][2], q.ch[0][2]
    for pc, (kind, res) in paths:
        if kind != "ok":
            kinds[f"raised {res}"] += 1; bad.append((res, str(e.solver.check(*pc)))); continue
        val, root, r1 = res
        if val is None:
            g = z3.And(Q != K1, Q != K2); kinds["get->None"] += 1
        else:
            spec = z3.If(Q == K2, v2.ch[0][2], v1.ch[0][2])
            g = z3.And(z3.Or(Q == K1, Q == K2), L.as_sbytes(val).ch[0][2] == spec); kinds["get->value"] += 1
        r = str(e.solver.check(*(pc + [z3.Not(g)])))
        if r != "unsat": bad.append(("get!=spec", r))
    # coverage: do the path conditions cover all (k1,k2,q)?
    cover = str(e.solver.check(z3.Not(z3.Or([z3.And(pc) if pc else z3.BoolVal(True) for pc, _ in paths]))))
    print(f"two keys + query: paths={len(paths)} {time.time()-t0:.1f}s kinds={dict(kinds)} violations={bad} uncovered-inputs={cover}")
    print("   stats", e.stats, "functions", len(e.functions_encoded))

def order():
    e = mk_engine()
    k1, k2 = key("k1", 1), key("k2", 1); v1, v2 = atom("v1", 2), atom("v2", 2)
    def body(eng):
        eng.pc.append(k1.ch[0][2] != k2.ch[0][2])
        ip = L.Interp(eng)
        try: return ("ok", ip.call(hbin.h_two_rev, [k1, v1, k2, v2]))
        except L.Raised as r: return ("raised", type(r.exc).__name__)
    t0 = time.time(); paths = e.explore(body); bad = []
    for pc, (kind, res) in paths:
        if kind != "ok": bad.append((res, str(e.solver.check(*pc)))); continue
        a, b = res
        r = e.bytes_eq(a, b); g = z3.BoolVal(r) if isinstance(r, bool) else r.t
        rr = str(e.solver.check(*(pc + [z3.Not(g)])))
        if rr != "unsat": bad.append(("order-dependent root", rr))
    print(f"order independence: paths={len(paths)} {time.time()-t0:.1f}s violations={bad}")

if __name__ == "__main__":
    two(); order()
