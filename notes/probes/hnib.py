from trie.utils.nibbles import encode_nibbles, decode_nibbles, bytes_to_nibbles, nibbles_to_bytes
from trie.utils.binaries import encode_from_bin_keypath, decode_to_bin_keypath, encode_to_bin, decode_from_bin

def h_hp(nibs):
    enc = encode_nibbles(nibs)
    return (enc, decode_nibbles(enc))

def h_keypath(bits):
    enc = encode_from_bin_keypath(bits)
    return (enc, decode_to_bin_keypath(enc))

def h_bin(b):
    return decode_from_bin(encode_to_bin(b))
