from typing import List
import trie.utils.nibbles as N

class _Valid:
    def __contains__(self, x): return 0 <= x < 16
class _Rev:
    def __getitem__(self, pair): return pair[0] * 16 + pair[1]
class _Fwd:
    def __getitem__(self, b): return (b // 16, b % 16)

def lift():
    # equivalence of the live tables with the closed forms is checked first (finite, exhaustive)
    assert N.VALID_NIBBLES == set(range(16))
    assert all(N.NIBBLES_LOOKUPS[b] == (b // 16, b % 16) for b in range(256)) and len(N.NIBBLES_LOOKUPS) == 256
    assert all(N.REVERSE_NIBBLES_LOOKUP[(h, l)] == h * 16 + l for h in range(16) for l in range(16))
    N.VALID_NIBBLES = _Valid(); N.REVERSE_NIBBLES_LOOKUP = _Rev(); N.NIBBLES_LOOKUPS = _Fwd()
lift()

def hp_roundtrip(nibs: List[int], term: bool) -> bool:
    """
    pre: len(nibs) <= 6
    pre: all(0 <= n <= 15 for n in nibs)
    post: _
    """
    t = tuple(nibs) + ((16,) if term else ())
    enc = N.encode_nibbles(t)
    dec = N.decode_nibbles(enc)
    return tuple(dec) == t and len(enc) == len(nibs) // 2 + 1

def b2n_roundtrip(b: bytes) -> bool:
    """
    pre: len(b) <= 4
    post: _
    """
    return N.nibbles_to_bytes(N.bytes_to_nibbles(b)) == b
