#!/bin/bash
# usage: run.sh file.py:LINE timeout
f=$1; t=$2
s=$(date +%s.%N)
out=$(timeout $((t+60)) ov/bin/crosshair check --report_all --per_condition_timeout $t -v $f 2>&1 | grep -E "Path tree stats|info:|error:|Number of iterations" | tail -4 | awk '{print substr($0,1,400)}')
e=$(date +%s.%N)
echo "=== $f wall=$(echo "$e - $s" | bc)"; echo "$out"
