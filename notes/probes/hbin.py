from trie.binary import BinaryTrie

def h_two(k1, v1, k2, v2, q):
    db = {}
    t = BinaryTrie(db)
    t.set(k1, v1)
    r1 = t.root_hash
    t.set(k2, v2)
    return (t.get(q), t.root_hash, r1)

def h_two_rev(k1, v1, k2, v2):
    t = BinaryTrie({})
    t.set(k1, v1); t.set(k2, v2)
    u = BinaryTrie({})
    u.set(k2, v2); u.set(k1, v1)
    return (t.root_hash, u.root_hash)
