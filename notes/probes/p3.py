# trie-level harness: symbolic op choices over concrete pools; real keccak + rlp run concretely
from typing import List, Tuple
from trie import HexaryTrie
import warm

KEYS = [b"", b"\x12", b"\x12\x34", b"\x12\x35", b"\x12\x34\x56", b"\x13"]
VALS = [b"", b"a", b"b" * 33]

def history(ops: List[Tuple[int, int]], prune: bool, q: int) -> bool:
    """
    pre: len(ops) <= 2
    pre: all(0 <= k < 6 and 0 <= v < 3 for (k, v) in ops)
    pre: 0 <= q < 6
    post: _
    """
    warm.reset_caches()
    t = HexaryTrie({}, prune=prune)
    model = {}
    for (k, v) in ops:
        key = KEYS[k]; val = VALS[v]
        t.set(key, val)
        if val == b"":
            model.pop(key, None)
        else:
            model[key] = val
    try:
        return t.get(KEYS[q]) == model.get(KEYS[q], b"")
    except Exception:
        return False

assert history.__wrapped__([(1, 1), (2, 2)], True, 1) if hasattr(history, "__wrapped__") else history([(1, 1), (2, 2)], True, 1)
assert history([(1, 1), (1, 0)], False, 1)
