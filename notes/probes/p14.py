# C18 idiom: symbolic ill-typed argument
from typing import List, Union, Optional, Tuple
import warm
from trie import HexaryTrie
from trie.exceptions import ValidationError

def bad_key(bad: Union[int, str, None, float, bytearray, List[int], Tuple[int, ...]], which: int) -> bool:
    """
    pre: 0 <= which < 4
    post: _
    """
    warm.reset_caches()
    db = {}
    t = HexaryTrie(db, prune=True)
    t.set(b"\x12", b"v1"); t.set(b"\x13", b"w" * 40)
    snap = (dict(db), t.root_hash, dict(t.ref_count))
    try:
        if which == 0: t.get(bad)
        elif which == 1: t.set(bad, b"x")
        elif which == 2: t.set(b"\x12", bad)
        else: t.delete(bad)
        return False
    except ValidationError:
        pass
    return (dict(db), t.root_hash, dict(t.ref_count)) == snap and t.get(b"\x12") == b"v1"
assert bad_key(3, 1) and bad_key(None, 2)
