from typing import List, Optional
import itertools
import eth_hash.auto
eth_hash.auto.keccak(b"")
import trie.utils.nibbles as N
from trie import HexaryTrie
from trie.iter import NodeIterator
from trie.typing import Nibbles
from trie.exceptions import TraversedPartialPath

POOL = [b"", b"\x12", b"\x12\x34", b"\x12\x35", b"\x12\x34\x56", b"\x13", b"\x20\x00"]
KEYSETS = [c for r in range(0, 4) for c in itertools.combinations(POOL, r)]
def build(keys):
    t = HexaryTrie({})
    for k in keys: t.set(k, b"v" + k)
    return t
TRIES = [build(ks) for ks in KEYSETS]
print(len(TRIES), "tries")

class _Valid:
    def __contains__(self, x): return 0 <= x < 16
class _Rev:
    def __getitem__(self, pair): return pair[0] * 16 + pair[1]
class _Fwd:
    def __getitem__(self, b): return (b // 16, b % 16)
N.VALID_NIBBLES = _Valid(); N.REVERSE_NIBBLES_LOOKUP = _Rev(); N.NIBBLES_LOOKUPS = _Fwd()

def succ(ti: int, k: bytes) -> bool:
    """
    pre: 0 <= ti < 64
    pre: len(k) <= 3
    post: _
    """
    keys = KEYSETS[ti]
    bigger = sorted(x for x in keys if x > k)
    exp = bigger[0] if bigger else None
    return NodeIterator(TRIES[ti]).next(k) == exp

def trav(ti: int, p: List[int]) -> bool:
    """
    pre: 0 <= ti < 64
    pre: len(p) <= 5 and all(0 <= n <= 15 for n in p)
    post: _
    """
    keys = KEYSETS[ti]
    path = tuple.__new__(Nibbles, p)
    knibs = [N.bytes_to_nibbles(x) for x in keys]
    any_under = any(len(kn) >= len(p) and all(a == b for a, b in zip(kn, p)) for kn in knibs)
    try:
        node = TRIES[ti].traverse(path)
    except TraversedPartialPath:
        return any_under
    return (node.node_type == 0) == (not any_under)
