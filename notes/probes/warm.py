import functools
import eth_hash.auto, eth_utils
eth_hash.auto.keccak(b"")          # settle the first-run hasher swap
eth_utils.keccak(b"")
def reset_caches():
    from trie import HexaryTrie
    for name in dir(HexaryTrie):
        f = getattr(HexaryTrie, name, None)
        if hasattr(f, "cache_clear"):
            f.cache_clear()
