import sys, time, z3
import pylift0 as L, hnib
L.INTERP_MODULES.add("hnib")
from drive import mk_engine

def sint(name, w=8): return L.SInt(z3.BitVec(name, w), w)

def hp(n, term):
    e = mk_engine()
    xs = [sint(f"n{i}") for i in range(n)]
    pre = [z3.ULT(x.t, 16) for x in xs]
    nibs = tuple(xs) + ((16,) if term else ())
    def body(eng):
        eng.pc.extend(pre)
        ip = L.Interp(eng)
        try: return ("ok", ip.call(hnib.h_hp, [nibs]))
        except L.Raised as r: return ("raised", type(r.exc).__name__)
    t0 = time.time(); paths = e.explore(body); out = []
    for pc, (kind, res) in paths:
        if kind != "ok": out.append((kind, res, str(e.solver.check(*pc)))); continue
        enc, dec = res
        # Yellow Paper HP, written arithmetically
        f = 2 if term else 0
        if n % 2: exp = [16 * (f + 1) + xs[0].t] + [16 * xs[i].t + xs[i + 1].t for i in range(1, n, 2)]
        else: exp = [z3.BitVecVal(16 * f, 8)] + [16 * xs[i].t + xs[i + 1].t for i in range(0, n, 2)]
        encb = L.Interp(e).iterate(L.as_sbytes(enc))
        g1 = z3.And([ (eb.t if isinstance(eb, L.SInt) else z3.BitVecVal(eb, 8)) == ex for eb, ex in zip(encb, exp)]) if len(encb) == len(exp) else z3.BoolVal(False)
        dec_t = tuple(dec.items) if isinstance(dec, L.PList) else tuple(dec)
        g2 = L.Interp(e).sym_eq(dec_t, nibs) if len(dec_t) == len(nibs) else z3.BoolVal(False)
        out.append(("HP==YellowPaper", str(e.solver.check(*(pc + [z3.Not(g1)]))), "decode(encode)==id", str(e.solver.check(*(pc + [z3.Not(g2)])))))
    print(f"hp n={n} term={term}: paths={len(paths)} {time.time()-t0:.1f}s", out, {k: e.stats[k] for k in ('merges','forks','feas_checks')})

def keypath(n):
    e = mk_engine()
    xs = [sint(f"b{i}") for i in range(n)]
    pre = [z3.ULT(x.t, 2) for x in xs]
    bits = L.simplify_bytes(L.SBytes([("bv", 1, x.t) for x in xs]))
    def body(eng):
        eng.pc.extend(pre)
        ip = L.Interp(eng)
        try: return ("ok", ip.call(hnib.h_keypath, [bits]))
        except L.Raised as r: return ("raised", type(r.exc).__name__)
    t0 = time.time(); paths = e.explore(body); out = []
    for pc, (kind, res) in paths:
        if kind != "ok": out.append((kind, res, str(e.solver.check(*pc)))); continue
        enc, dec = res
        r = e.bytes_eq(dec, bits)
        g = z3.BoolVal(r) if isinstance(r, bool) else r.t
        out.append(("roundtrip", str(e.solver.check(*(pc + [z3.Not(g)]))), "enc_len", len(enc)))
    print(f"keypath n={n}: paths={len(paths)} {time.time()-t0:.1f}s", out, {k: e.stats[k] for k in ('merges','forks','feas_checks')})

if __name__ == "__main__":
    for n in (0, 1, 2, 3, 6): 
        for term in (False, True): hp(n, term)
    for n in (1, 3, 4, 7, 8, 9, 12, 17): keypath(n)
