from typing import List, Tuple
from trie.fog import HexaryTrieFog
from trie.typing import Nibbles
from trie.exceptions import PerfectVisibility, FullDirectionalVisibility
from eth_utils import ValidationError

def starts(a, b):  # a starts with b
    return len(a) >= len(b) and tuple(a[:len(b)]) == tuple(b)

def fog_q(segs: List[List[int]], q: List[int]) -> bool:
    """
    pre: len(segs) <= 3 and all(len(s) <= 2 for s in segs) and len(q) <= 3
    pre: all(0 <= n <= 2 for s in segs for n in s) and all(0 <= n <= 3 for n in q)
    post: _
    """
    segs_t = [tuple(s) for s in segs]
    valid = len(set(segs_t)) == len(segs_t) and not any(i != j and starts(a, b) for i, a in enumerate(segs_t) for j, b in enumerate(segs_t))
    f0 = HexaryTrieFog()
    try:
        f = f0.explore((), segs_t)
    except ValidationError:
        return (not valid) and f0 == HexaryTrieFog()
    if not valid:
        return False
    unexplored = sorted(segs_t)
    qt = tuple(q)
    try:
        r = f.nearest_right(qt)
    except PerfectVisibility:
        return unexplored == []
    except FullDirectionalVisibility:
        return unexplored != [] and not any(starts(qt, u) or u > qt for u in unexplored)
    cont = [u for u in unexplored if starts(qt, u)]
    if cont:
        return tuple(r) == cont[0]
    right = [u for u in unexplored if u > qt]
    return bool(right) and tuple(r) == right[0]
