from trie.smt import SparseMerkleTree, SparseMerkleProof, calc_root

def h_tree(key_size, default, ops, q):
    t = SparseMerkleTree(key_size=key_size, default=default)
    root0 = t.root_hash
    for (k, v) in ops:
        t.set(k, v)
    val = t.get(q)
    br = t.branch(q)
    return (val, calc_root(q, val, br), t.root_hash, root0)
