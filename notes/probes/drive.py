import sys, time, z3
import eth_hash.auto, eth_utils
import pylift0 as L
import hsmt
from trie.smt import SparseMerkleTree, calc_root

def mk_engine():
    e = L.Engine()
    e.stubs[eth_hash.auto.keccak] = lambda ip, x: e.keccak(x)
    e.stubs[eth_utils.keccak] = lambda ip, x=None, **kw: e.keccak(x)
    def to_int(ip, x=None, **kw):
        if isinstance(x, bytes): return int.from_bytes(x, "big")
        assert isinstance(x, L.SBytes) and len(x.ch) == 1 and x.ch[0][0] == "bv", x
        return L.SInt(x.ch[0][2], 8 * x.ch[0][1])
    e.stubs[eth_utils.to_int] = to_int
    return e

def atom(name, n): return L.SBytes([("a", n, z3.Const(name, L.U))])
def key(name, ks): return L.SBytes([("bv", ks, z3.BitVec(name, 8 * ks))])

def run(ks, nops, vlen=2):
    e = mk_engine()
    default = atom("default", vlen)
    ops = tuple((key(f"k{i}", ks), atom(f"v{i}", vlen)) for i in range(nops))
    q = key("q", ks)
    def body(eng):
        ip = L.Interp(eng)
        try:
            return ("ok", ip.call(hsmt.h_tree, [ks, default, ops, q]))
        except L.Raised as r:
            return ("raised", type(r.exc).__name__)
    t0 = time.time()
    paths = e.explore(body)
    t_exec = time.time() - t0
    # spec
    spec = default.ch[0][2]
    for (k, v) in ops: spec = z3.If(q.ch[0][2] == k.ch[0][2], v.ch[0][2], spec)
    verdicts = []
    for pc, (kind, res) in paths:
        if kind != "ok":
            verdicts.append(("exception path " + str(res), str(e.solver.check(*pc)))); continue
        val, cr, root, root0 = res
        goals = {"get==spec": val.ch[0][2] == spec, "calc_root==root": cr.ch[0][2] == root.ch[0][2]}
        for name, g in goals.items():
            t = time.time(); r = e.solver.check(*(pc + [z3.Not(g)])); verdicts.append((name, str(r), round(time.time() - t, 2)))
        # sanity: a false goal must be sat
        r = e.solver.check(*(pc + [z3.Not(val.ch[0][2] == default.ch[0][2])])); verdicts.append(("sanity(get==default is falsifiable)", str(r)))
    print(f"ks={ks} ops={nops}: paths={len(paths)} exec={t_exec:.1f}s stats={e.stats} fns={len(e.functions_encoded)}")
    for v in verdicts: print("   ", v)
    return e

if __name__ == "__main__":
    run(int(sys.argv[1]), int(sys.argv[2]))
