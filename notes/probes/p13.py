# C07 idiom: one symbolic bool per db entry, consulted only when that entry is read
from typing import List
import warm
from trie import HexaryTrie
from trie.exceptions import MissingTrieNode

L = b"x" * 33
KEYS = [b"\x12\x34", b"\x12\x35", b"\x13\x00", b"\x20\x00"]
def build():
    db = {}
    t = HexaryTrie(db)
    for k in KEYS: t.set(k, L + k)
    # keep only nodes reachable from the final root
    live = set(HexaryTrie(db, t.root_hash, prune=True).regenerate_ref_count())
    return {k: v for k, v in db.items() if k in live}, t.root_hash
DB, ROOT = build()
ORDER = sorted(DB)
print(len(ORDER), "nodes")

class HidingDict(dict):
    def __init__(self, base, miss):
        super().__init__(base); self.miss = miss; self.asked = []
    def __getitem__(self, k):
        i = ORDER.index(k) if k in ORDER else -1
        if i >= 0 and self.miss[i]:
            self.asked.append(k); raise KeyError(k)
        return super().__getitem__(k)

def missing_get(miss: List[bool], ki: int) -> bool:
    """
    pre: len(miss) == len(ORDER)
    pre: 0 <= ki < 4
    post: _
    """
    warm.reset_caches()
    db = HidingDict(DB, miss)
    t = HexaryTrie(db, ROOT)
    key = KEYS[ki]
    hidden = {ORDER[i] for i in range(len(ORDER)) if miss[i]}
    try:
        v = t.get(key)
    except MissingTrieNode as e:
        return bytes(e.missing_node_hash) in hidden and bytes(e.root_hash) == ROOT and bytes(e.requested_key) == key and t.root_hash == ROOT
    return v == L + key
assert missing_get([False] * len(ORDER), 1) and missing_get([True] * len(ORDER), 0)
