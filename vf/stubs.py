"""Stubs, wrappers and determinism helpers used by Engine X harnesses.

Everything here is part of the claim of the harness that uses it (see DESIGN.md 3.1).
Nothing in /repo is modified on disk: stubs are attributes set on imported modules.
"""
import eth_hash.auto
import eth_utils

REAL_HASHER = None


def warm():
    """Settle eth-hash's lazy first-call backend swap (a source of NotDeterministic)."""
    global REAL_HASHER
    eth_hash.auto.keccak(b"")
    eth_utils.keccak(b"")
    if REAL_HASHER is None:
        REAL_HASHER = eth_hash.auto.keccak.hasher


def reset_caches():
    """lru_cache on HexaryTrie._cached_create_node_to_db_mapping carries state across paths."""
    from trie import HexaryTrie
    for name in dir(HexaryTrie):
        f = getattr(HexaryTrie, name, None)
        if hasattr(f, "cache_clear"):
            f.cache_clear()


# ---------------------------------------------------------------------------------------------
# table lifting (licence: the closed forms are compared with the live tables first)
class _Valid:
    def __contains__(self, x):
        return 0 <= x < 16


class _Rev:
    def __getitem__(self, pair):
        return pair[0] * 16 + pair[1]


class _Fwd:
    def __getitem__(self, b):
        return (b // 16, b % 16)

    def items(self):
        return [(b, (b // 16, b % 16)) for b in range(256)]


def tables_match_closed_forms():
    import trie.utils.nibbles as N
    try:
        return (
            set(N.VALID_NIBBLES) == set(range(16)) and len(N.VALID_NIBBLES) == 16
            and len(N.NIBBLES_LOOKUPS) == 256
            and all(N.NIBBLES_LOOKUPS[b] == (b // 16, b % 16) for b in range(256))
            and len(N.REVERSE_NIBBLES_LOOKUP) == 256
            and all(N.REVERSE_NIBBLES_LOOKUP[(h, l)] == h * 16 + l for h in range(16) for l in range(16))
        )
    except Exception:
        return False


LIFTED = False


def lift_tables():
    """Replace the three static nibble tables by objects computing the same closed forms.
    Returns True if lifted; False if the live tables are not the closed forms (then the harness
    runs unlifted, the mismatch itself is C16's business)."""
    global LIFTED
    import trie.utils.nibbles as N
    if LIFTED:
        return True
    if not all(hasattr(N, n) for n in ("VALID_NIBBLES", "REVERSE_NIBBLES_LOOKUP", "NIBBLES_LOOKUPS")):
        return False
    if not tables_match_closed_forms():
        return False
    N.VALID_NIBBLES = _Valid()
    N.REVERSE_NIBBLES_LOOKUP = _Rev()
    N.NIBBLES_LOOKUPS = _Fwd()
    LIFTED = True
    return True


# ---------------------------------------------------------------------------------------------
class ModelHash:
    """Injective interning stub for keccak256: distinct pre-images -> distinct 32-byte tokens.
    Assumption carried by its users: keccak256 is collision free on the inputs of the run."""

    def __init__(self):
        self.table = []

    def __call__(self, data):
        if isinstance(data, (bytearray, memoryview)):
            data = bytes(data)
        for pre, tok in self.table:
            if pre == data:
                return tok
        tok = b"\xAA" * 30 + len(self.table).to_bytes(2, "big")
        self.table.append((data, tok))
        return tok


def install_model_hash():
    mh = ModelHash()
    eth_hash.auto.keccak.hasher = mh
    return mh


def uninstall_model_hash():
    if REAL_HASHER is not None:
        eth_hash.auto.keccak.hasher = REAL_HASHER


# ---------------------------------------------------------------------------------------------
def _decide(b):
    """truth value of a possibly symbolic bool, or of a thunk computing one from symbolic values.  When the
    caller runs natively inside a CrossHair path (NoTracing), tracing is resumed just for this decision, so
    the solver forks the path here."""
    if b is True or b is False:
        return b
    import sys
    tr = sys.modules.get("crosshair.tracers")
    if tr is not None and not tr.is_tracing():
        with tr.ResumedTracing():
            return bool(b() if callable(b) else b)
    return bool(b() if callable(b) else b)


class DbWriteFailure(Exception):
    """raised by FailingDict at the chosen write"""


class CountingDict(dict):
    """dict that counts reads and writes; otherwise transparent"""

    def __init__(self, *a):
        super().__init__(*a)
        self.reads = 0
        self.writes = 0
        self.deletes = 0

    def __getitem__(self, k):
        self.reads += 1
        return super().__getitem__(k)

    def __setitem__(self, k, v):
        self.writes += 1
        super().__setitem__(k, v)

    def __delitem__(self, k):
        self.deletes += 1
        super().__delitem__(k)

    def pop(self, k, *d):
        self.deletes += 1
        return super().pop(k, *d)


class FailingDict(dict):
    """dict whose `fail_at`-th __setitem__ (0-based, counted from arming) raises DbWriteFailure.
    fail_at may be a symbolic int: the comparison forks at each write the run reaches."""

    def __init__(self, *a):
        super().__init__(*a)
        self.fail_at = None
        self.nwrites = 0
        self.fired = False

    def arm(self, fail_at):
        self.fail_at = fail_at
        self.nwrites = 0
        self.fired = False

    def disarm(self):
        self.fail_at = None

    def __setitem__(self, k, v):
        if self.fail_at is not None and _decide(lambda: self.fail_at >= 0):
            n = self.nwrites
            self.nwrites = n + 1
            if _decide(lambda: n == self.fail_at):
                self.fired = True
                self.fail_at = None
                raise DbWriteFailure(n)
        super().__setitem__(k, v)


class HidingDict(dict):
    """dict that pretends entries are missing: `miss[i]` (possibly symbolic bool) for the i-th key
    of `order`.  Bits are consulted lazily, only when that entry is read."""

    def __init__(self, base, order, miss):
        super().__init__(base)
        self.index = {k: i for i, k in enumerate(order)}
        self.miss = miss
        self.asked = []

    def hidden(self, k):
        i = self.index.get(k, -1)
        return i >= 0 and _decide(self.miss[i])

    def unhide(self, k):
        i = self.index.get(k, -1)
        if i >= 0:
            self.miss[i] = False

    def __getitem__(self, k):
        if self.hidden(k):
            self.asked.append(k)
            raise KeyError(k)
        return super().__getitem__(k)

    def __contains__(self, k):
        if dict.__contains__(self, k) and self.hidden(k):
            return False
        return dict.__contains__(self, k)
