"""Engine X worker: runs CrossHair (symbolic execution of the real code with z3) on harness functions.

usage: python -m vf.xworker <jobs.json>       one JSON result line per job on stdout
       python -m vf.xworker --replay <file>   native re-execution of a recorded counterexample

A job: {"module": "vf.props.C17", "fn": "h_batch", "cfg": <json>, "pct": sec, "ppt": sec, "kind": "check"|"reach"}
"""
import collections
import importlib
import json
import os
import re
import sys
import time
import traceback


def _load(module, cfg):
    mod = importlib.import_module(module)
    if hasattr(mod, "configure"):
        mod.configure(cfg)
    return mod


def native_call(mod, fname, args, kwargs=None):
    """Run harness function natively (plain CPython). Returns (ok, detail)."""
    fn = getattr(mod, fname)
    try:
        r = fn(*args, **(kwargs or {}))
    except Exception as e:  # only Exception: CrossHair's steering exceptions are BaseException
        return False, "raised " + type(e).__name__ + ": " + str(e)[:300] + "\n" + traceback.format_exc()[-1500:]
    detail = getattr(mod, "LAST_REASON", None)
    return (r is True), (detail if r is not True else "")


_CALL_RE = re.compile(r"when calling (\w+)\((.*)\)(?: \(which returns .*\))?$", re.S)


def parse_counterexample(message, fname, mod):
    """'false when calling f(a, b=[...])' -> (args, kwargs) by evaluating the call text."""
    text = message.strip()
    i = text.find("when calling ")
    if i < 0:
        return None
    call = text[i + len("when calling "):]
    j = call.rfind(" (which returns ")
    if j >= 0:
        call = call[:j]
    k = call.find(" with ")   # crosshair appends patch expressions " with ..."
    # keep it simple: evaluate "<fname>(...)" with fname bound to a capture function
    captured = {}

    def cap(*a, **kw):
        captured["a"], captured["k"] = a, kw
        return None

    env = dict(vars(mod))
    env[fname] = cap
    env.setdefault("float", float)
    try:
        eval(call, env)
    except Exception:
        if k >= 0:
            try:
                eval(call[:k], env)
            except Exception:
                return None
        else:
            return None
    if "a" not in captured:
        return None
    return list(captured["a"]), dict(captured["k"])


def run_job(job):
    t0 = time.time()
    c0 = time.process_time()
    out = {"module": job["module"], "fn": job["fn"], "cfg": job.get("cfg"), "kind": job.get("kind", "check")}
    try:
        mod = _load(job["module"], job.get("cfg"))
        fname = job["fn"]
        fn = getattr(mod, fname)
        # 1. native warm-up run(s): settles lazy imports / caches, and is a first plain execution
        warm = getattr(mod, "WARM", {}).get(fname)
        if warm is not None:
            seen = set()

            def prof(frame, event, arg):
                if event == "call":
                    g = frame.f_globals.get("__name__", "")
                    if g.startswith("trie"):
                        seen.add(g + "." + frame.f_code.co_qualname)
            for args in warm(job.get("cfg")):
                sys.setprofile(prof)
                try:
                    ok, detail = native_call(mod, fname, list(args))
                finally:
                    sys.setprofile(None)
                out["functions_executed"] = sorted(seen)
                if not ok and job.get("kind", "check") == "check":
                    out.update(status="refuted", paths=0, confirmed_paths=0, counterexample={"args": _jsonable(list(args)), "kwargs": {}},
                               message="native warm-up run failed: " + str(detail)[:400], native=True)
                    out["wall_s"] = round(time.time() - t0, 2)
                    return out
        # 2. symbolic run
        import z3
        import crosshair.core_and_libs  # noqa: F401  (registers library models)
        from crosshair.core import analyze_function, analyze_calltree
        from crosshair.options import AnalysisOptionSet
        from crosshair.condition_parser import condition_parser
        from crosshair.statespace import VerificationStatus
        import crosshair.statespace as ss

        qstat = {"n": 0, "s": 0.0, "unknown": 0}
        if not getattr(ss, "_vf_wrapped", False):
            orig = ss.solver_is_sat

            def counted(solver, *exprs):
                t = time.perf_counter()
                try:
                    return orig(solver, *exprs)
                except ss.UnknownSatisfiability:
                    run_job.qstat["unknown"] += 1
                    raise
                finally:
                    run_job.qstat["n"] += 1
                    run_job.qstat["s"] += time.perf_counter() - t
            ss.solver_is_sat = counted
            ss._vf_wrapped = True
        run_job.qstat = qstat

        opts = AnalysisOptionSet(per_condition_timeout=float(job.get("pct", 60)), per_path_timeout=float(job.get("ppt", 20)),
                                 report_all=True, max_uninteresting_iterations=0)
        checkables = analyze_function(fn, opts)
        if not checkables:
            raise RuntimeError("no conditions found on " + fname)
        res_status, msgs, confirmed, paths = None, [], 0, 0
        for c in checkables:
            if not hasattr(c, "conditions"):
                raise RuntimeError("contract syntax error: " + "; ".join(m.message for m in c.analyze()))
            c.options.stats = collections.Counter()
            c.options.deadline = time.process_time() + c.options.per_condition_timeout
            with condition_parser(c.options.analysis_kind):
                res = analyze_calltree(c.options, c.conditions)
            paths += c.options.stats.get("num_paths", 0)
            confirmed += res.num_confirmed_paths
            msgs.extend(res.messages)
            st = res.verification_status
            pre_unsat = any(m.state.name == "PRE_UNSAT" for m in res.messages)
            if pre_unsat:
                s = "pre_unsat"
            elif st is VerificationStatus.CONFIRMED:
                s = "confirmed"
            elif st is VerificationStatus.REFUTED:
                s = "refuted"
            else:
                s = "unknown"
            order = ["refuted", "pre_unsat", "unknown", "confirmed"]
            if res_status is None or order.index(s) < order.index(res_status):
                res_status = s
        out.update(status=res_status, paths=paths, confirmed_paths=confirmed,
                   solver_queries=qstat["n"], solver_s=round(qstat["s"], 3), solver_unknown=qstat["unknown"])
        if res_status == "refuted":
            m = [m for m in msgs if m.state.name in ("POST_FAIL", "POST_ERR", "EXEC_ERR", "PRE_INVALID")]
            m = m or msgs
            out["message"] = (m[0].message if m else "")[:2000]
            out["message_kind"] = m[0].state.name if m else ""
            ce = parse_counterexample(m[0].message, fname, mod) if m else None
            if ce is not None:
                out["counterexample"] = {"args": _jsonable(ce[0]), "kwargs": _jsonable(ce[1])}
        counters = getattr(mod, "COUNTERS", None)
        if counters:
            out["counters"] = dict(counters)
        samples = getattr(mod, "SAMPLES", None)
        if samples:
            out["samples"] = list(samples)[:3]
    except BaseException as e:  # includes crosshair internal errors
        out.update(status="error", message=type(e).__name__ + ": " + str(e)[:500] + "\n" + traceback.format_exc()[-2000:])
    out["wall_s"] = round(time.time() - t0, 2)
    out["cpu_s"] = round(time.process_time() - c0, 2)
    return out


def _jsonable(v):
    """JSON with a tagged encoding for bytes / tuples so that replay is exact."""
    if isinstance(v, (bytes, bytearray)):
        return {"__bytes__": bytes(v).hex()}
    if isinstance(v, tuple):
        return {"__tuple__": [_jsonable(x) for x in v]}
    if isinstance(v, list):
        return [_jsonable(x) for x in v]
    if isinstance(v, dict):
        return {"__dict__": [[_jsonable(k), _jsonable(x)] for k, x in v.items()]}
    if isinstance(v, float):
        return {"__float__": repr(v)}
    if isinstance(v, (int, bool, str)) or v is None:
        return v
    return {"__repr__": repr(v)}


def unjson(v):
    if isinstance(v, list):
        return [unjson(x) for x in v]
    if isinstance(v, dict):
        if "__bytes__" in v:
            return bytes.fromhex(v["__bytes__"])
        if "__tuple__" in v:
            return tuple(unjson(x) for x in v["__tuple__"])
        if "__dict__" in v:
            return {unjson(k): unjson(x) for k, x in v["__dict__"]}
        if "__float__" in v:
            return float(v["__float__"])
        if "__repr__" in v:
            return eval(v["__repr__"])
        return {k: unjson(x) for k, x in v.items()}
    return v


def replay(path):
    with open(path) as f:
        rec = json.load(f)
    if rec.get("engine") == "L":
        from vf.pylift import lrun
        return lrun.replay(rec)
    mod = _load(rec["module"], rec.get("cfg"))
    args = unjson(rec["counterexample"]["args"])
    kwargs = unjson(rec["counterexample"].get("kwargs", {}))
    ok, detail = native_call(mod, rec["fn"], args, kwargs)
    return ok, detail


def main(argv):
    if argv and argv[0] == "--replay":
        ok, detail = replay(argv[1])
        print(json.dumps({"reproduced": not ok, "detail": str(detail)[:3000]}))
        return 0
    with open(argv[0]) as f:
        jobs = json.load(f)
    for job in jobs:
        r = run_job(job)
        try:
            line = json.dumps(r, default=str)
        except BaseException as e:
            r.pop("samples", None)
            r.pop("counters", None)
            r["note"] = "samples dropped: " + type(e).__name__
            line = json.dumps(r, default=lambda o: "<unprintable>")
        print(line, flush=True)
    return 0


if __name__ == "__main__":
    sys.exit(main(sys.argv[1:]))
