"""R-mpt / R-node: the Yellow Paper (Appendix D) Merkle Patricia trie, written independently of py-trie.

Own hex-prefix, own RLP encoder, the c(J,i)/n(J,i) recursion, embedding rule len(rlp) < 32, root always
hashed.  Nothing here imports `trie`.  keccak goes through eth_hash.auto so that a harness which installs
the model hash gets the same function on both sides.
"""
from eth_hash.auto import keccak as _keccak

BLANK_ROOT = bytes.fromhex("56e81f171bcc55a6ff8345e692c0f86e5b48e01b996cadc001622fb5e363b421")


def keccak(b):
    return _keccak(b)


# ---------------------------------------------------------------- RLP (encoder only)
def _len_prefix(n, offset):
    if n < 56:
        return bytes([offset + n])
    bl = n.to_bytes((n.bit_length() + 7) // 8, "big")
    return bytes([offset + 55 + len(bl)]) + bl


def rlp(x):
    if isinstance(x, (bytes, bytearray)):
        x = bytes(x)
        if len(x) == 1 and x[0] < 0x80:
            return x
        return _len_prefix(len(x), 0x80) + x
    body = b"".join(rlp(i) for i in x)
    return _len_prefix(len(body), 0xC0) + body


# ---------------------------------------------------------------- hex prefix
def nibbles_of(key):
    out = []
    for b in key:
        out.append(b // 16)      # (// and % rather than >> and &: these stay symbolic under CrossHair)
        out.append(b % 16)
    return tuple(out)


def bytes_of(nibs):
    assert len(nibs) % 2 == 0
    return bytes(nibs[i] * 16 + nibs[i + 1] for i in range(0, len(nibs), 2))


def hp(nibs, t):
    f = 2 if t else 0
    if len(nibs) % 2:
        out = [16 * (f + 1) + nibs[0]]
        rest = nibs[1:]
    else:
        out = [16 * f]
        rest = nibs
    for i in range(0, len(rest), 2):
        out.append(16 * rest[i] + rest[i + 1])
    return bytes(out)


# ---------------------------------------------------------------- structure
class Node:
    __slots__ = ("kind", "path", "value", "children", "child", "_enc")

    def __init__(self, kind, path=(), value=b"", children=None, child=None):
        self.kind, self.path, self.value, self.children, self.child = kind, tuple(path), value, children, child
        self._enc = None


def build(items, i=0):
    """items: dict nibble-tuple -> non-empty value.  Returns canonical Node or None (blank)."""
    if not items:
        return None
    keys = list(items)
    if len(keys) == 1:
        k = keys[0]
        return Node("leaf", k[i:], items[k])
    # longest common prefix beyond i
    j = i
    while True:
        if any(len(k) <= j for k in keys):
            break
        c = keys[0][j]
        if any(k[j] != c for k in keys):
            break
        j += 1
    if j > i:
        return Node("ext", keys[0][i:j], child=build(items, j))
    children = []
    for nib in range(16):
        sub = {k: v for k, v in items.items() if len(k) > i and k[i] == nib}
        children.append(build(sub, i + 1))
    value = b""
    for k in keys:
        if len(k) == i:
            value = items[k]
    return Node("branch", (), value, children=children)


def structure(node):
    """the RLP-able list for a node, children replaced by their references"""
    if node is None:
        return b""
    if node.kind == "leaf":
        return [hp(node.path, True), node.value]
    if node.kind == "ext":
        return [hp(node.path, False), ref(node.child)]
    return [ref(c) for c in node.children] + [node.value]


def encoded(node):
    if node._enc is None:
        node._enc = rlp(structure(node))
    return node._enc


def ref(node):
    """n(J,i): blank -> b'', embedded structure when rlp < 32 bytes, else the 32-byte hash"""
    if node is None:
        return b""
    e = encoded(node)
    if len(e) < 32:
        return structure(node)
    return keccak(e)


def is_hashed(node):
    return node is not None and len(encoded(node)) >= 32


def root_of(model):
    """model: dict bytes -> bytes (empty values are treated as absent)"""
    items = {nibbles_of(k): v for k, v in model.items() if v != b""}
    n = build(items)
    if n is None:
        return BLANK_ROOT
    return keccak(encoded(n))


def tree_of(model):
    return build({nibbles_of(k): v for k, v in model.items() if v != b""})


def db_of(model):
    """exact set of database entries of the canonical trie: {hash: rlp} of every hashed node + the root"""
    t = tree_of(model)
    out = {}
    if t is None:
        return out

    def walk(n, is_root):
        if n is None:
            return
        e = encoded(n)
        if is_root or len(e) >= 32:
            out[keccak(e)] = e
        if n.kind == "ext":
            walk(n.child, False)
        elif n.kind == "branch":
            for c in n.children:
                walk(c, False)
    walk(t, True)
    return out


def ref_counts(model):
    """number of references to each stored node in the canonical trie (root counts once)"""
    t = tree_of(model)
    out = {}
    if t is None:
        return out

    def walk(n, is_root):
        if n is None:
            return
        e = encoded(n)
        if is_root or len(e) >= 32:
            h = keccak(e)
            out[h] = out.get(h, 0) + 1
        if n.kind == "ext":
            walk(n.child, False)
        elif n.kind == "branch":
            for c in n.children:
                walk(c, False)
    walk(t, True)
    return out


# ---------------------------------------------------------------- R-node: what traverse(path) must say
def describe(node):
    """(type, sub_segments, value, suffix) of a canonical node; types: 0 blank 1 leaf 2 ext 3 branch"""
    if node is None:
        return (0, (), b"", ())
    if node.kind == "leaf":
        return (1, (), node.value, node.path)
    if node.kind == "ext":
        return (2, (node.path,), b"", ())
    subs = tuple((i,) for i in range(16) if node.children[i] is not None)
    return (3, subs, node.value, ())


def locate(tree, path):
    """Walk `path` (nibbles) from the root of the canonical tree.
    -> ("node", node, prefix_reached)                      exact node at path (node may be None = blank)
       ("partial", node, prefix_to_node, tail)             path ends strictly inside leaf/ext `node`
    Route information: list of (prefix, node) for every node visited, in order."""
    node, pos, route = tree, 0, []
    path = tuple(path)
    while True:
        route.append((path[:pos], node))
        if pos == len(path):
            return ("node", node, path[:pos]), route
        if node is None:
            return ("node", None, path[:pos]), route
        rest = path[pos:]
        if node.kind == "leaf":
            if len(rest) <= len(node.path) and node.path[:len(rest)] == rest:
                return ("partial", node, path[:pos], rest), route
            return ("node", None, path), route
        if node.kind == "ext":
            p = node.path
            if rest[:len(p)] == p:
                pos += len(p)
                node = node.child
                continue
            if len(rest) < len(p) and p[:len(rest)] == rest:
                return ("partial", node, path[:pos], rest), route
            return ("node", None, path), route
        # branch
        node = node.children[rest[0]]
        pos += 1


def lookup_route(tree, key_nibbles):
    """nodes a lookup of key must read: list of (prefix, node) root-first, stopping where the key is decided"""
    node, pos, route = tree, 0, []
    key = tuple(key_nibbles)
    while node is not None:
        route.append((key[:pos], node))
        rest = key[pos:]
        if node.kind == "leaf":
            break
        if node.kind == "ext":
            p = node.path
            if rest[:len(p)] == p:
                pos += len(p)
                node = node.child
                continue
            break
        if not rest:
            break
        node = node.children[rest[0]]
        pos += 1
    return route


def all_nodes(tree):
    """(prefix, node) for every node of the tree in pre-order, left to right"""
    out = []

    def walk(n, prefix):
        if n is None:
            return
        out.append((prefix, n))
        if n.kind == "ext":
            walk(n.child, prefix + n.path)
        elif n.kind == "branch":
            for i, c in enumerate(n.children):
                walk(c, prefix + (i,))
    walk(tree, ())
    return out
