"""Engine X scheduler: fans harness jobs out to xworker subprocesses, replays counterexamples
natively, applies the known-findings file, writes evidence, returns the exit code."""
import json
import os
import queue
import subprocess
import sys
import threading
import time

from . import common
from .common import say

PY = sys.executable


def _run_batch(batch, wdir, idx):
    jf = os.path.join(wdir, f"jobs-{idx}.json")
    with open(jf, "w") as f:
        json.dump(batch, f)
    budget = sum(float(j.get("pct", 60)) for j in batch) * 2.5 + 90 * len(batch)
    env = dict(os.environ)
    env["PYTHONHASHSEED"] = "0"
    results = []
    try:
        p = subprocess.run([PY, "-m", "vf.xworker", jf], capture_output=True, text=True, timeout=budget, cwd=common.VERIF, env=env)
        lines, err = p.stdout.splitlines(), p.stderr[-1500:]
    except subprocess.TimeoutExpired as e:
        so = e.stdout.decode() if isinstance(e.stdout, bytes) else (e.stdout or "")
        lines, err = so.splitlines(), "worker wall-clock budget exceeded"
    for ln in lines:
        ln = ln.strip()
        if ln.startswith("{"):
            try:
                results.append(json.loads(ln))
            except ValueError:
                pass
    for j in batch[len(results):]:
        results.append({"module": j["module"], "fn": j["fn"], "cfg": j.get("cfg"), "kind": j.get("kind", "check"),
                        "status": "error", "message": "worker produced no result: " + err})
    return results


def run_jobs(jobs, wdir, batch_size=None):
    n = len(jobs)
    if batch_size is None:
        batch_size = max(1, min(6, n // (common.NCPU * 3)))
    batches = [jobs[i:i + batch_size] for i in range(0, n, batch_size)]
    q = queue.Queue()
    for i, b in enumerate(batches):
        q.put((i, b))
    results, lock = [], threading.Lock()

    def work():
        while True:
            try:
                i, b = q.get_nowait()
            except queue.Empty:
                return
            r = _run_batch(b, wdir, i)
            with lock:
                results.extend(r)

    threads = [threading.Thread(target=work) for _ in range(min(common.NCPU, len(batches)))]
    for t in threads:
        t.start()
    for t in threads:
        t.join()
    return results


def native_replay(path):
    env = dict(os.environ)
    env["PYTHONHASHSEED"] = "0"
    try:
        p = subprocess.run([PY, "-m", "vf.xworker", "--replay", path], capture_output=True, text=True, timeout=600, cwd=common.VERIF, env=env)
        for ln in reversed(p.stdout.splitlines()):
            if ln.strip().startswith("{"):
                return json.loads(ln)
        return {"reproduced": None, "detail": "replay produced no verdict: " + p.stderr[-800:]}
    except Exception as e:
        return {"reproduced": None, "detail": "replay failed: " + repr(e)}


def save_replay(pid, rec):
    d = common.replay_dir()
    import re
    fn = re.sub(r"[^A-Za-z0-9_]+", "_", str(rec["fn"]))[:40]
    name = f"{pid}-{fn}-{abs(hash(json.dumps(rec, sort_keys=True, default=str))) % 10**8:08d}.json"
    path = os.path.join(d, name)
    with open(path, "w") as f:
        json.dump(rec, f, indent=1, default=str)
    return path


def matches_known(pid, rec):
    for k in common.known_for(pid):
        m = k.get("match", {})
        if m.get("fn") and m["fn"] != rec.get("fn"):
            continue
        if "cfg" in m and m["cfg"] != rec.get("cfg"):
            continue
        if "args" in m and m["args"] != rec.get("counterexample", {}).get("args"):
            continue
        return k
    return None


def evaluate(pid, tier, results, timer):
    """-> (exit_code, summary dict). Prints VIOLATION / KNOWN-FINDING lines."""
    violations, harness_errors, inconclusive, known_hits = [], [], [], []
    confirmed = 0
    replays = 0
    for r in results:
        kind, st = r.get("kind", "check"), r.get("status")
        tag = f"{r['fn']}[{json.dumps(r.get('cfg'), default=str)[:80]}]"
        if kind == "reach":
            # vacuity twin: must be refuted, and the witness must replay natively
            if st != "refuted":
                harness_errors.append(f"reachability twin {tag} came back {st} ({str(r.get('message'))[:200]}): harness may be vacuous")
                continue
            if r.get("counterexample") is not None:
                rec = {"engine": "X", "module": r["module"], "fn": r["fn"], "cfg": r.get("cfg"), "counterexample": r["counterexample"]}
                wp = os.path.join(common.work_dir(pid), f"reach-{len(harness_errors)}-{replays}.json")
                with open(wp, "w") as f:
                    json.dump(rec, f)
                v = native_replay(wp)
                replays += 1
                if v.get("reproduced") is not True:
                    harness_errors.append(f"reachability witness of {tag} does not replay natively: {str(v.get('detail'))[:200]}")
                else:
                    r["witness_replayed"] = True
            continue
        if st == "confirmed":
            confirmed += 1
        elif st == "refuted":
            if r.get("counterexample") is None:
                harness_errors.append(f"{tag}: refuted without a parseable counterexample: {str(r.get('message'))[:400]}")
                continue
            rec = {"engine": "X", "property": pid, "module": r["module"], "fn": r["fn"], "cfg": r.get("cfg"),
                   "counterexample": r["counterexample"], "message": r.get("message"), "tier": tier}
            path = save_replay(pid, rec)
            v = native_replay(path)
            replays += 1
            if v.get("reproduced") is True:
                k = matches_known(pid, rec)
                if k is not None:
                    known_hits.append((k, path))
                else:
                    violations.append((path, r.get("message"), v.get("detail")))
            else:
                os.remove(path)
                harness_errors.append(f"{tag}: counterexample does not reproduce natively ({str(v.get('detail'))[:200]}); message: {str(r.get('message'))[:300]}")
        elif st in ("unknown", "pre_unsat"):
            inconclusive.append(f"{tag}: {st} after {r.get('paths')} paths")
        else:
            harness_errors.append(f"{tag}: {str(r.get('message'))[:600]}")
    for k, path in known_hits:
        say(f"KNOWN-FINDING: property={pid} {k.get('what', '')} (replay={path})")
    for path, msg, detail in violations:
        say(f"VIOLATION property={pid} replay={path}")
        say("   " + str(msg)[:300].replace("\n", " "))
        if detail:
            say("   native: " + str(detail)[:300].replace("\n", " "))
    for h in harness_errors:
        say("HARNESS-ERROR " + h.replace("\n", " | ")[:900])
    for i in inconclusive[:20]:
        say("INCONCLUSIVE " + i)
    code = common.EXIT_VIOLATION if violations else (common.EXIT_HARNESS_ERROR if harness_errors else common.EXIT_OK)
    return code, dict(violations=violations, harness_errors=harness_errors, inconclusive=inconclusive, confirmed=confirmed,
                      known_hits=known_hits, replays=replays)


def coverage_from(results, summary, spec, tier):
    checks = [r for r in results if r.get("kind", "check") == "check"]
    paths = sum(r.get("paths", 0) or 0 for r in results)
    cpaths = sum(r.get("confirmed_paths", 0) or 0 for r in checks)
    q = sum(r.get("solver_queries", 0) or 0 for r in results)
    qs = sum(r.get("solver_s", 0) or 0 for r in results)
    nontriv = 0
    counters = {}
    for r in checks:
        for k, v in (r.get("counters") or {}).items():
            counters[k] = counters.get(k, 0) + v
    nontriv = counters.get("nontrivial", 0)
    fx = set()
    for r in results:
        fx.update(r.get("functions_executed") or [])
    samples = []
    for r in results:
        if r.get("kind") == "reach" and r.get("counterexample"):
            samples.append({"reachability_witness": r["fn"], "cfg": r.get("cfg"), "input": r["counterexample"]})
    for r in checks[:4]:
        samples.append({"harness": r["fn"], "cfg": r.get("cfg"), "status": r.get("status"), "paths": r.get("paths"),
                        "cases": r.get("samples")})
    by_fn = {}
    for r in checks:
        d = by_fn.setdefault(r["fn"], {"partitions": 0, "confirmed": 0, "paths": 0, "cpu_s": 0.0})
        d["partitions"] += 1
        d["confirmed"] += 1 if r.get("status") == "confirmed" else 0
        d["paths"] += r.get("paths", 0) or 0
        d["cpu_s"] = round(d["cpu_s"] + (r.get("cpu_s", 0) or 0), 1)
    cov = {
        "engine": "X: CrossHair 0.0.110 symbolic execution of the real code, z3 decides every branch; verdict per partition = path-tree exhaustion ('Confirmed over all paths')",
        "states": max(1, paths),
        "transitions": max(1, q),
        "traces_validated_against_impl": summary["replays"] + sum(1 for r in results if r.get("functions_executed")),
        "evaluations": max(1, paths),
        "distinct_nontrivial": max(nontriv, 0),
        "rule": getattr(spec, "NONTRIVIAL_RULE", "a path is non-trivial when the harness's event counter fired on it"),
        "samples": samples[:8] or [{"note": "no samples"}],
        "partitions": len(checks),
        "partitions_confirmed": summary["confirmed"],
        "partitions_inconclusive": summary["inconclusive"][:50],
        "confirmed_paths": cpaths,
        "exhaustive": bool(checks) and summary["confirmed"] == len(checks) and not summary["violations"],
        "solver_queries": q,
        "solver_s": round(qs, 2),
        "per_harness": by_fn,
        "slowest_partitions": [{"fn": r["fn"], "cfg": r.get("cfg"), "paths": r.get("paths"), "cpu_s": r.get("cpu_s")}
                               for r in sorted(checks, key=lambda r: -(r.get("cpu_s") or 0))[:5]],
        "event_counters": counters,
        "functions_encoded": sorted(fx) or list(getattr(spec, "FUNCTIONS", [])),
        "bounds": getattr(spec, "BOUNDS", {}).get(tier, ""),
        "outside_bounds": getattr(spec, "OUTSIDE", ""),
        "known_findings_hit": [k.get("what") for k, _ in summary["known_hits"]],
        "harness_errors": summary["harness_errors"][:20],
    }
    return cov


def run_x(spec, tier, extra=None):
    """Generic driver for a property served by Engine X only. `extra(tier, wdir)` may contribute
    additional (e.g. Engine L) obligations: returns dict(code=, coverage=, assumptions=)."""
    import shutil
    pid = spec.PROPERTY
    timer = common.Timer()
    wdir = common.work_dir(pid)
    try:
        jobs = spec.jobs(tier)
        for j in jobs:
            j.setdefault("module", spec.__name__)
        say(f"[{pid}] tier={tier} engine X: {len(jobs)} partitions on {common.NCPU} workers")
        results = run_jobs(jobs, wdir)
        code, summary = evaluate(pid, tier, results, timer)
        cov = coverage_from(results, summary, spec, tier)
        assumptions = list(getattr(spec, "ASSUMPTIONS", []))
        if extra is not None:
            ex = extra(tier, wdir)
            cov["engine_L"] = ex.get("coverage")
            assumptions += ex.get("assumptions", [])
            if ex.get("code", 0) == common.EXIT_VIOLATION:
                code = common.EXIT_VIOLATION
            elif ex.get("code", 0) != 0 and code == 0:
                code = ex["code"]
            cov["exhaustive"] = cov["exhaustive"] and bool(ex.get("coverage", {}).get("exhaustive", True))
        nviol = len(summary["violations"]) + (extra is not None and ex.get("violations", 0) or 0)
        path = common.write_evidence(pid, tier, cov, assumptions, timer.s(), nviol)
        say(f"[{pid}] partitions={cov['partitions']} confirmed={cov['partitions_confirmed']} inconclusive={len(summary['inconclusive'])} "
            f"paths={cov['states']} solver_queries={cov['solver_queries']} wall={timer.s():.0f}s exit={code} evidence={path}")
        return code
    finally:
        shutil.rmtree(wdir, ignore_errors=True)
