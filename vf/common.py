"""Shared plumbing: paths, evidence files, known findings, exit codes."""
import json
import os
import sys
import time

VERIF = os.path.dirname(os.path.dirname(os.path.abspath(__file__)))
REPO = "/repo"
EVIDENCE_DIR = os.path.join(VERIF, "evidence")
WORK_DIR = os.path.join(VERIF, ".work")
KNOWN_FINDINGS = os.path.join(VERIF, "known_findings.json")

EXIT_OK = 0
EXIT_VIOLATION = 1
EXIT_HARNESS_ERROR = 3      # reserved: the machinery itself misbehaved; never a VIOLATION line

NCPU = int(os.environ.get("VERIF_JOBS", "0")) or (os.cpu_count() or 4)


def seed():
    try:
        return int(os.environ.get("VERIF_SEED", "0"))
    except ValueError:
        return 0


def load_known_findings():
    try:
        with open(KNOWN_FINDINGS) as f:
            return json.load(f)
    except FileNotFoundError:
        return {"known": [], "fixed": []}


def known_for(pid):
    return [k for k in load_known_findings().get("known", []) if k.get("property") == pid]


def work_dir(pid):
    d = os.path.join(WORK_DIR, f"{pid}-{os.getpid()}")
    os.makedirs(d, exist_ok=True)
    return d


def replay_dir():
    d = os.path.join(VERIF, "replays")
    os.makedirs(d, exist_ok=True)
    return d


def repo_head():
    import subprocess
    try:
        h = subprocess.run(["git", "-C", REPO, "rev-parse", "--short", "HEAD"], capture_output=True, text=True).stdout.strip()
        d = subprocess.run(["git", "-C", REPO, "status", "--porcelain", "--", "trie"], capture_output=True, text=True).stdout.strip()
        return h + ("+dirty" if d else "")
    except Exception:
        return "unknown"


def write_evidence(pid, tier, coverage, assumptions, wall_s, violations, extra=None):
    os.makedirs(EVIDENCE_DIR, exist_ok=True)
    ev = {
        "property_id": pid,
        "tier": tier,
        "seed": seed(),
        "level": "model_checking",
        "coverage": coverage,
        "assumptions": assumptions,
        "wall_s": round(wall_s, 2),
        "violations": violations,
        "repo_head": repo_head(),
        "written_at": time.strftime("%Y-%m-%dT%H:%M:%SZ", time.gmtime()),
    }
    if extra:
        ev.update(extra)
    path = os.path.join(EVIDENCE_DIR, f"{pid}.json")
    tmp = path + ".tmp"
    with open(tmp, "w") as f:
        json.dump(ev, f, indent=1, default=str)
    os.replace(tmp, path)
    return path


def say(*a):
    print(*a, flush=True)


class Timer:
    def __init__(self):
        self.t0 = time.time()

    def s(self):
        return time.time() - self.t0
