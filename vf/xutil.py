"""Helpers usable inside harness bodies (under CrossHair tracing or natively)."""
import sys


def concrete(v):
    """Realise a (possibly symbolic) value into plain Python data. Call only at the end of a path:
    realisation pins the value in the current path's model."""
    ch = sys.modules.get("crosshair.core")
    if ch is None:
        return v
    try:
        from crosshair.tracers import is_tracing
        if not is_tracing():
            return v
        return ch.deep_realize(v)
    except Exception:
        return "<unrealised>"


class notrace:
    """Run a block of *concrete* checking code natively (CrossHair's NoTracing) when called from a
    traced harness; no-op otherwise.  Only for code whose inputs are concrete on the path."""

    def __enter__(self):
        self.cm = None
        if "crosshair.tracers" in sys.modules:
            from crosshair.tracers import NoTracing, is_tracing
            if is_tracing():
                self.cm = NoTracing()
                self.cm.__enter__()
        return self

    def __exit__(self, *a):
        if self.cm is not None:
            return self.cm.__exit__(*a)
        return False


def pick(x, n):
    """Concrete int equal to the (possibly symbolic) x, which must lie in range(n): a linear scan of
    comparisons, i.e. one solver-decided branch per candidate; every feasible candidate becomes a path."""
    for i in range(n):
        if x == i:
            return i
    raise AssertionError("pick: value outside range")


def pick_from(x, candidates):
    """like pick() for an explicit candidate list"""
    for c in candidates:
        if x == c:
            return c
    raise AssertionError("pick_from: value outside candidates")
