"""Helpers usable inside harness bodies (under CrossHair tracing or natively)."""
import sys


def concrete(v):
    """Realise a (possibly symbolic) value into plain Python data. Call only at the end of a path:
    realisation pins the value in the current path's model."""
    ch = sys.modules.get("crosshair.core")
    if ch is None:
        return v
    try:
        from crosshair.tracers import is_tracing
        if not is_tracing():
            return v
        return ch.deep_realize(v)
    except Exception:
        return "<unrealised>"
