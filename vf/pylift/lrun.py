"""Engine L driver: discharges obligations `forall inputs within the bound: harness(inputs) is True`
by interpreting the harness (and the py-trie functions it calls) symbolically and asking z3 for a
counterexample on every path; counterexamples are replayed natively before they are reported.

An obligation is a dict {"name", "harness": "module:function", "builder": "module:function", "params": {...}}.
  harness(*args) -> bool | (bool, witness_bool)      plain Python over the py-trie API
  builder(src, **params) -> list of args               src.bv / src.atom / src.int / src.bool create inputs
"""
import importlib
import json
import multiprocessing as mp
import os
import sys
import time
import traceback

import z3

from vf import common
from vf.common import say
from vf.pylift import core as L


def _resolve(spec):
    m, f = spec.split(":")
    return getattr(importlib.import_module(m), f)


class ConcreteSource:
    def __init__(self, values):
        self.v = values

    def bv(self, name, n):
        return self.v[name]

    def atom(self, name, n):
        return self.v[name]

    def int(self, name, w, lo=None, hi=None):
        return self.v[name]

    def bool(self, name):
        return self.v[name]

    def mk_bytes(self, items):
        return bytes(items)


class BoundarySource:
    """concrete inputs built from a byte pattern: used for a handful of native runs of every obligation (all-zero, all-one,
    alternating ... inputs).  They catch what the interpreter cannot encode (e.g. floating point sneaking into integer code)."""

    def __init__(self, pat):
        self.pat = pat
        self.n = 0

    def _byte(self):
        self.n += 1
        p = self.pat
        if p == "alt":
            return 0xFF if self.n % 2 else 0x00
        if p == "lowhigh":
            return 0x0F if self.n % 2 else 0xF0
        if p == "adjacent":
            return 0x00
        if p == "adjacent-high":
            return 0xFF
        return p

    def bv(self, name, n):
        if self.pat in ("adjacent", "adjacent-high") and n:
            self.k = getattr(self, "k", -1) + 1          # successive keys differ in their last bits only
            base = 0x00 if self.pat == "adjacent" else 0xFF
            return bytes([base] * (n - 1)) + bytes([(base ^ self.k) & 0xFF])
        return bytes(self._byte() for _ in range(n))

    def atom(self, name, n):
        self.n += 1
        return bytes([(0xA0 + self.n) % 256]) * n

    def int(self, name, w, lo=None, hi=None):
        v = self._byte() % (1 << w)
        if hi is not None:
            v = min(v, hi)
        if lo is not None:
            v = max(v, lo)
        return v

    def bool(self, name):
        self.n += 1
        return bool(self.n % 2)

    def mk_bytes(self, items):
        return bytes(items)


class SymbolicSource:
    def __init__(self, e):
        self.e = e

    def bv(self, name, n):
        return self.e.in_bv(name, n)

    def atom(self, name, n):
        return self.e.in_atom(name, n)

    def int(self, name, w, lo=None, hi=None):
        return self.e.in_int(name, w, lo, hi)

    def bool(self, name):
        return self.e.in_bool(name)

    def mk_bytes(self, items):
        ch = []
        for v in items:
            if isinstance(v, int):
                ch.append(("c", bytes([v])))
            else:
                ch.append(("bv", 1, v.t if v.w == 8 else z3.ZeroExt(8 - v.w, v.t)))
        return L.simplify_bytes(L.SBytes(ch))


def mk_engine(use_rank=False):
    import eth_hash.auto
    import eth_utils
    e = L.Engine(use_rank=use_rank)
    e.stubs[eth_hash.auto.keccak] = lambda ip, x: e.keccak(x)
    e.stubs[eth_utils.keccak] = lambda ip, x=None, **kw: e.keccak(x)

    def to_int(ip, x=None, **kw):
        if isinstance(x, bytes):
            return int.from_bytes(x, "big")
        if isinstance(x, L.SBytes):
            terms = []
            for c in x.ch:
                if c[0] == "c":
                    terms.append(z3.BitVecVal(int.from_bytes(c[1], "big"), 8 * len(c[1])))
                elif c[0] == "bv":
                    terms.append(c[2])
                else:
                    raise L.Unsupported("to_int of an atom chunk")
            t = terms[0] if len(terms) == 1 else z3.Concat(*terms)
            return L.SInt(t, t.size())
        raise L.Unsupported("to_int of " + type(x).__name__)
    e.stubs[eth_utils.to_int] = to_int
    return e


class _Recorder:
    """re-runs a builder on a BoundarySource while recording name -> value, so that the failing inputs can be replayed"""

    def __init__(self, _src):
        pass

    def values(self, builder, params, pat):
        src = BoundarySource(pat)
        rec = {}

        class R:
            def bv(s, name, n):
                rec[name] = src.bv(name, n); return rec[name]

            def atom(s, name, n):
                rec[name] = src.atom(name, n); return rec[name]

            def int(s, name, w, lo=None, hi=None):
                rec[name] = src.int(name, w, lo, hi); return rec[name]

            def bool(s, name):
                rec[name] = src.bool(name); return rec[name]

            def mk_bytes(s, items):
                return bytes(items)
        builder(R(), **params)
        return rec


def native_call(harness, args):
    try:
        r = harness(*args)
    except Exception as ex:
        return False, f"raised {type(ex).__name__}: {ex}"
    ok = r[0] if isinstance(r, tuple) else r
    return (ok is True), ("returned " + repr(ok))


def _jsonable(v):
    from vf.xworker import _jsonable as j
    return j(v)


def run_obligation(ob, timeout_s=600):
    t0 = time.time()
    out = {"name": ob["name"], "params": ob.get("params", {}), "status": "error", "paths": 0, "queries": 0, "solver_s": 0.0}
    try:
        harness = _resolve(ob["harness"])
        builder = _resolve(ob["builder"])
        params = ob.get("params", {})
        # native boundary runs (plain CPython, real keccak): a failing one is a replayable counterexample by itself
        for pat in (0x00, 0xFF, "alt", "lowhigh", "adjacent", "adjacent-high"):
            bsrc = BoundarySource(pat)
            try:
                bargs = builder(bsrc, **params)
            except Exception:
                continue
            okb, db_ = native_call(harness, bargs)
            out["native_runs"] = out.get("native_runs", 0) + 1
            if not okb:
                rec = _Recorder(bsrc)
                out.update(status="counterexample", detail="native boundary run failed: " + db_, paths=0,
                           counterexample={"values": _jsonable(rec.values(builder, params, pat)), "path_kind": "native-boundary", "detail": db_})
                out["wall_s"] = round(time.time() - t0, 2)
                return out
        e = mk_engine(bool(ob.get("rank")))
        e.solver.set("timeout", int(ob.get("query_timeout_ms", 120000)))
        args = builder(SymbolicSource(e), **params)
        pre = list(e.solver.assertions())          # input constraints + axioms so far

        def body(eng):
            ip = L.Interp(eng)
            try:
                return ("ok", ip.call(harness, list(args)))
            except L.Raised as r:
                return ("raised", type(r.exc).__name__ + ": " + str(r.exc)[:100])
        paths = e.explore(body)
        out["paths"] = len(paths)
        out["functions_encoded"] = sorted(e.functions_encoded)
        nq, qs = 0, 0.0
        verdict, detail, cex, witnessed = "holds", "", None, False
        samples = []

        def check(*terms):
            nonlocal nq, qs
            t = time.time()
            r = e.solver.check(*terms)
            nq += 1
            qs += time.time() - t
            return str(r)

        for pc, (kind, res) in paths:
            if time.time() - t0 > timeout_s:
                verdict, detail = "inconclusive", "obligation time budget exceeded"
                break
            if kind == "ok":
                okv = res[0] if isinstance(res, tuple) else res
                wit = res[1] if isinstance(res, tuple) and len(res) > 1 else None
                if okv is True:
                    neg = None
                elif okv is False:
                    neg = z3.BoolVal(True)
                elif isinstance(okv, L.SBool):
                    neg = z3.Not(okv.t)
                else:
                    raise L.Unsupported(f"harness returned {type(okv).__name__}")
            else:
                neg, wit = z3.BoolVal(True), None
            r = "unsat" if neg is None else check(*(pc + [neg]))
            if r == "sat":
                vals = e.concretize(e.solver.model())
                cex = {"values": vals, "path_kind": kind, "detail": res if kind != "ok" else ""}
                verdict = "counterexample"
                break
            if r != "unsat":
                verdict, detail = "inconclusive", f"solver answered {r} ({e.solver.reason_unknown()})"
                break
            # reachability / vacuity: the path itself must be feasible, and the witness event must be reachable on some path
            rp = check(*pc)
            if rp == "sat":
                vals = e.concretize(e.solver.model())
                if len(samples) < 2:
                    samples.append(_jsonable(vals))
                # translation validation: the real code, run natively on this path's witness, satisfies the harness
                cargs = builder(ConcreteSource(vals), **params)
                okn, dn = native_call(harness, cargs)
                out["native_runs"] = out.get("native_runs", 0) + 1
                if not okn:
                    verdict, detail = "mismatch", f"path proved by the solver but the native run on its witness {vals} fails: {dn}"
                    cex = {"values": vals, "path_kind": kind}
                    break
            if wit is not None:
                if wit is True or (isinstance(wit, L.SBool) and check(*(pc + [wit.t])) == "sat"):
                    witnessed = True
        if verdict == "holds":
            # coverage closure: the explored path conditions cover the whole bounded input space
            if len(paths) > 1 or (paths and paths[0][0]):
                cover = check(z3.Not(z3.Or([z3.And(pc) if pc else z3.BoolVal(True) for pc, _ in paths])))
                if cover != "unsat":
                    verdict, detail = "inconclusive", f"coverage closure answered {cover}: some inputs are on no explored path"
            if verdict == "holds" and ob.get("needs_witness") and not witnessed:
                verdict, detail = "vacuous", "the reachability witness of this obligation is not satisfiable on any path"
        out.update(status=verdict, detail=detail, queries=nq + e.stats["feas_checks"], solver_s=round(qs + e.stats["solver_s"], 3),
                   merges=e.stats["merges"], forks=e.stats["forks"], keccak_apps=e.stats["keccak"], samples=samples)
        if cex is not None:
            out["counterexample"] = {"values": _jsonable(cex["values"]), "path_kind": cex["path_kind"], "detail": str(cex.get("detail", ""))[:300]}
    except L.Unsupported as u:
        out.update(status="inconclusive", detail="Unsupported: " + str(u))
    except BaseException as ex:
        out.update(status="error", detail=type(ex).__name__ + ": " + str(ex)[:300] + " | " + traceback.format_exc()[-1200:])
    out["wall_s"] = round(time.time() - t0, 2)
    return out


def replay(rec):
    """native re-execution of a recorded Engine L counterexample; returns (ok, detail)"""
    from vf.xworker import unjson
    ob = rec["obligation"]
    harness = _resolve(ob["harness"])
    builder = _resolve(ob["builder"])
    vals = unjson(rec["counterexample"]["values"])
    args = builder(ConcreteSource(vals), **ob.get("params", {}))
    return native_call(harness, args)


def _worker(ob):
    # the AST interpreter recurses deeply: run it in a thread with a large stack
    import threading
    sys.setrecursionlimit(200000)
    threading.stack_size(512 * 1024 * 1024)
    box = {}

    def target():
        box["r"] = run_obligation(ob, ob.get("timeout_s", 900))
    th = threading.Thread(target=target)
    th.start()
    th.join()
    return box.get("r") or {"name": ob["name"], "params": ob.get("params", {}), "status": "error", "detail": "worker thread died", "paths": 0}


def run_all(pid, tier, obligations, extra_cov=None):
    """discharge obligations on all cores; -> dict(code, coverage, assumptions, violations)"""
    t0 = time.time()

    def cost(ob):      # longest first, so that the pool is not left waiting for a late long obligation
        p = ob.get("params", {})
        c = ob.get("cost", 0)
        for k, v in p.items():
            if isinstance(v, list):
                c += 10 * sum(x for x in v if isinstance(x, int)) + 5 * len(v)
            elif isinstance(v, int) and not isinstance(v, bool):
                c += v
        return -c
    obligations = sorted(obligations, key=cost)
    ctx = mp.get_context("fork")
    with ctx.Pool(min(common.NCPU, max(1, len(obligations)))) as pool:
        results = pool.map(_worker, obligations, chunksize=1)
    violations, herr, inconc = [], [], []
    for ob, r in zip(obligations, results):
        st = r["status"]
        if st == "holds":
            continue
        if st in ("counterexample", "mismatch"):
            rec = {"engine": "L", "property": pid, "obligation": ob, "counterexample": r["counterexample"], "tier": tier, "fn": ob["name"]}
            from vf.xengine import save_replay, matches_known
            path = save_replay(pid, rec)
            ok, detail = replay(rec)
            if not ok:
                k = matches_known(pid, {"fn": ob["name"], "cfg": ob.get("params"), "counterexample": {"args": r["counterexample"]["values"]}})
                if k is not None:
                    say(f"KNOWN-FINDING: property={pid} {k.get('what', '')} (replay={path})")
                else:
                    violations.append((path, ob["name"], detail, r["counterexample"]))
            else:
                os.remove(path)
                herr.append(f"{ob['name']}: solver model does not reproduce natively ({r.get('detail') or detail}); values {r['counterexample']['values']}")
        elif st in ("inconclusive", "vacuous"):
            inconc.append(f"{ob['name']} {ob.get('params')}: {st}: {r.get('detail')}")
            if st == "vacuous":
                herr.append(f"{ob['name']}: vacuous obligation")
        else:
            herr.append(f"{ob['name']} {ob.get('params')}: {r.get('detail')}")
    for path, name, detail, cex in violations:
        say(f"VIOLATION property={pid} replay={path}")
        say(f"   obligation {name}: native run {detail}; inputs {json.dumps(cex['values'])[:300]}")
    for h in herr:
        say("HARNESS-ERROR " + h.replace("\n", " | ")[:900])
    for i in inconc[:20]:
        say("INCONCLUSIVE " + i[:400])
    fx = set()
    for r in results:
        fx.update(r.get("functions_encoded") or [])
    npaths = sum(r.get("paths", 0) for r in results)
    nq = sum(r.get("queries", 0) for r in results)
    held = sum(1 for r in results if r["status"] == "holds")
    cov = {
        "engine": "L: pylift merging symbolic interpreter (live Python AST -> z3 5.1); keys/nibbles/bits as bit-vectors, byte strings as chunks, keccak as injective uninterpreted functions over an uninterpreted sort; verdict per path = unsat of (path condition and not property), plus coverage closure",
        "obligations": len(obligations),
        "discharged": held,
        "states": max(1, npaths),
        "transitions": max(1, nq),
        "traces_validated_against_impl": sum(r.get("native_runs", 0) for r in results),
        "evaluations": max(1, npaths),
        "distinct_nontrivial": held,
        "rule": "an obligation is one bounded universally quantified statement (one query per explored path, all input values at once); distinct_nontrivial counts discharged obligations",
        "samples": [{"obligation": r["name"], "params": r.get("params"), "status": r["status"], "paths": r.get("paths"), "path_witnesses": r.get("samples")} for r in results[:6]],
        "exhaustive": held == len(obligations),
        "solver_queries": nq,
        "solver_s": round(sum(r.get("solver_s", 0) for r in results), 2),
        "merges": sum(r.get("merges", 0) for r in results),
        "forks": sum(r.get("forks", 0) for r in results),
        "functions_encoded": sorted(fx),
        "inconclusive": inconc[:30],
        "harness_errors": herr[:20],
        "slowest_obligations": [{"name": r["name"], "params": r.get("params"), "wall_s": r.get("wall_s"), "paths": r.get("paths")} for r in sorted(results, key=lambda r: -r.get("wall_s", 0))[:5]],
        "wall_s": round(time.time() - t0, 1),
    }
    if extra_cov:
        cov.update(extra_cov)
    code = common.EXIT_VIOLATION if violations else (common.EXIT_HARNESS_ERROR if herr else common.EXIT_OK)
    return {"code": code, "coverage": cov, "violations": len(violations), "results": results}


def run_l(spec, tier):
    """generic driver for a property served by Engine L only"""
    pid = spec.PROPERTY
    timer = common.Timer()
    obs = spec.obligations(tier)
    say(f"[{pid}] tier={tier} engine L: {len(obs)} obligations on {common.NCPU} workers")
    res = run_all(pid, tier, obs)
    cov = res["coverage"]
    cov["bounds"] = getattr(spec, "BOUNDS", {}).get(tier, "")
    cov["outside_bounds"] = getattr(spec, "OUTSIDE", "")
    path = common.write_evidence(pid, tier, cov, list(getattr(spec, "ASSUMPTIONS", [])), timer.s(), res["violations"])
    say(f"[{pid}] obligations={cov['obligations']} discharged={cov['discharged']} paths={cov['states']} solver_queries={cov['solver_queries']} "
        f"wall={timer.s():.0f}s exit={res['code']} evidence={path}")
    return res["code"]
