"""
pylift -- Engine L: a merging symbolic interpreter from the Python AST of live py-trie functions to z3.
(grown out of the design-round prototype notes/probes/pylift0.py)

Values
  concrete python values (int, bool, bytes, str, None, tuple, functions, classes, modules)
  SBool(z3 Bool)   SInt(z3 BitVec, width)   SBytes(chunks)
     chunk = ('c', bytes) | ('a', n, U-term) | ('bv', n, BitVec(8n))
  PList (mutable list)  PDict (python dict with concrete keys)  SMap (dict with symbolic keys)
  PObj (instance of an interpreted class)
Control
  symbolic `if`: run both arms on deep copies, merge by ite if shapes/outcomes agree, else fork
  forks are resolved by re-execution with a decision log (DFS over feasible alternatives)
"""
import ast, copy, inspect, os, textwrap, itertools, time, types
import z3

U = z3.DeclareSort("U")
BLANK_HASH_BYTES = bytes.fromhex("c5d2460186f7233c927e7db2dcc703c0e500b653ca82273b7bfad8045d85a470")
INTERP_MODULES = {"trie", "vf"}


class Unsupported(Exception):
    pass


class SBool:
    __slots__ = ("t",)
    def __init__(self, t): self.t = t
    def __deepcopy__(self, memo): return self


class SInt:
    __slots__ = ("t", "w")
    def __init__(self, t, w): self.t, self.w = t, w
    def __deepcopy__(self, memo): return self


class SBytes:
    __slots__ = ("ch",)
    def __init__(self, ch):
        out = []
        for c in ch:
            if c[0] == "c":
                if not c[1]: continue
                if out and out[-1][0] == "c":
                    out[-1] = ("c", out[-1][1] + c[1]); continue
            out.append(c)
        self.ch = tuple(out)
    def __deepcopy__(self, memo): return self
    def __len__(self): return sum(len(c[1]) if c[0] == "c" else c[1] for c in self.ch)
    def __add__(self, o): return simplify_bytes(SBytes(self.ch + as_sbytes(o).ch))
    def __radd__(self, o): return simplify_bytes(SBytes(as_sbytes(o).ch + self.ch))
    def shape(self): return tuple((c[0], len(c[1]) if c[0] == "c" else c[1]) for c in self.ch)


def as_sbytes(v):
    if isinstance(v, SBytes): return v
    if isinstance(v, bytes): return SBytes([("c", v)])
    raise Unsupported(f"not bytes: {v!r}")


def simplify_bytes(sb):
    if all(c[0] == "c" for c in sb.ch):
        return b"".join(c[1] for c in sb.ch)
    return sb


class PList:
    def __init__(self, items): self.items = list(items)


class _Tomb:
    def __repr__(self): return "<deleted>"
    def __deepcopy__(self, memo): return self
TOMB = _Tomb()


class SMap:
    """dict keyed by (possibly symbolic) byte strings: association list, newest last; a deletion appends (key, TOMB)"""
    def __init__(self): self.entries = []


class PObj:
    def __init__(self, cls): self.cls, self.attrs = cls, {}


MUT = None  # set below

def clone(v, memo):
    """copy the mutable world; memo: id(orig) -> (orig, copy)"""
    if isinstance(v, (PList, PObj, SMap, dict, list)):
        if id(v) in memo: return memo[id(v)][1]
        if isinstance(v, PList):
            c = PList([]); memo[id(v)] = (v, c); c.items = [clone(x, memo) for x in v.items]
        elif isinstance(v, PObj):
            c = PObj(v.cls); memo[id(v)] = (v, c); c.attrs = clone(v.attrs, memo)
        elif isinstance(v, SMap):
            c = SMap(); memo[id(v)] = (v, c); c.entries = [(clone(k, memo), clone(x, memo)) for k, x in v.entries]
        elif isinstance(v, dict):
            c = {}; memo[id(v)] = (v, c)
            for k, x in v.items(): c[k] = x if k == "__globals__" else clone(x, memo)
        else:
            c = []; memo[id(v)] = (v, c); c.extend(clone(x, memo) for x in v)
        return c
    if isinstance(v, tuple):
        t = tuple(clone(x, memo) for x in v)
        return v if all(a is b for a, b in zip(t, v)) else t
    if isinstance(v, BoundMethod):
        return BoundMethod(v.fn, clone(v.obj, memo))
    return v


class Ret(Exception):
    def __init__(self, v): self.v = v
class Brk(Exception): pass
class Cont(Exception): pass
class Raised(Exception):
    def __init__(self, exc): self.exc = exc       # a real python exception instance
class NeedFork(Exception): pass
class Infeasible(Exception): pass


class Engine:
    def __init__(self, use_rank=False):
        self.solver = z3.Solver()
        self.const_atoms = {}
        self.hfuns = {}
        self.hash_axioms = 0
        self.stats = dict(paths=0, merges=0, forks=0, feas_checks=0, keccak=0, solver_s=0.0)
        self.stubs = {}
        self.src_cache = {}
        self.functions_encoded = set()
        self.inputs = {}           # name -> (kind, size, z3 term)
        self.hash_apps = []        # (result term, canonical SBytes argument): lets a model be concretised with REAL hashes
        self.lifts = []            # (atom term, n, bit-vector term)
        self.lenf = z3.Function("len", U, z3.IntSort())
        self.unwind = 64
        self.max_depth = 60
        self.model = None
        # rank axioms (no hash inside its own pre-image) are needed only where the interpreted code walks node structure
        # without consuming a key (get_trie_nodes, witnesses); they cost z3 a factor of ~3, so they are opt-in per obligation
        self.use_rank = use_rank
        self.keccak(b"")          # registers keccak(b'') == BLANK_HASH: every other pre-image shape then hashes to something else (shape tags)

    # ---- symbolic inputs ---------------------------------------------------------------
    def in_bv(self, name, n):
        t = z3.BitVec(name, 8 * n)
        self.inputs[name] = ("bv", n, t)
        return SBytes([("bv", n, t)])

    def in_atom(self, name, n):
        t = z3.Const(name, U)
        self.solver.add(self.lenf(t) == n)
        self.inputs[name] = ("atom", n, t)
        return SBytes([("a", n, t)])

    def in_int(self, name, w, lo=None, hi=None):
        t = z3.BitVec(name, w)
        self.inputs[name] = ("int", w, t)
        if lo is not None: self.solver.add(z3.UGE(t, lo))
        if hi is not None: self.solver.add(z3.ULE(t, hi))
        return SInt(t, w)

    def in_bool(self, name):
        t = z3.Bool(name)
        self.inputs[name] = ("bool", 1, t)
        return SBool(t)

    def concretize(self, model):
        """model -> {input name: python value}.  Atoms of the uninterpreted sort are given byte strings consistent with
        the model: a constant's own bytes, the REAL keccak of the concretised pre-image when the model identifies the atom
        with a hash result (so that e.g. "this stored value equals the hash of that node" replays natively), the bytes of a
        lifted bit-vector, otherwise a filler that is distinct per distinct element."""
        from eth_hash.auto import keccak as real_keccak

        def el(t):
            return str(model.eval(t, model_completion=True))
        consts = {el(t): b for b, t in self.const_atoms.items()}
        lifts = {}
        for (r, n, bv) in self.lifts:
            lifts.setdefault(el(r), (n, bv))
        hashes = {}
        for (r, sb) in self.hash_apps:
            hashes.setdefault(el(r), sb)
        memo, fillers = {}, {}

        def filler(key, n):
            if (key, n) not in fillers:
                i = len(fillers)
                fillers[(key, n)] = (bytes([0xE1 + i % 30]) * n) if n else b""
            return fillers[(key, n)]

        def resolve(key, n, depth=0):
            if (key, n) in memo:
                return memo[(key, n)]
            out = None
            if key in consts and len(consts[key]) == n:
                out = consts[key]
            elif key in lifts and lifts[key][0] == n:
                out = int(model.eval(lifts[key][1], model_completion=True).as_long()).to_bytes(n, "big")
            elif key in hashes and n == 32 and depth < 40:
                pre = b""
                for c in hashes[key].ch:
                    pre += resolve(el(c[2]), c[1], depth + 1)
                out = real_keccak(pre)
            if out is None:
                out = filler(key, n)
            memo[(key, n)] = out
            return out
        res = {}
        for name, (kind, n, t) in self.inputs.items():
            v = model.eval(t, model_completion=True)
            if kind == "bv":
                res[name] = int(v.as_long()).to_bytes(n, "big")
            elif kind == "int":
                res[name] = int(v.as_long())
            elif kind == "bool":
                res[name] = bool(z3.is_true(v))
            else:
                res[name] = resolve(str(v), n)
        return res

    # ---- atoms / hashing -------------------------------------------------------------
    def const_atom(self, b):
        if b not in self.const_atoms:
            t = z3.Const(f"c_{b.hex() or 'empty'}", U)
            for o in self.const_atoms.values():
                self.solver.add(t != o)
            self.solver.add(self.lenf(t) == len(b))
            self.const_atoms[b] = t
            self.model = None
        return self.const_atoms[b]

    def chunk_term(self, c):
        if c[0] == "c": return self.const_atom(c[1])
        if c[0] == "a": return c[2]
        raise Unsupported("hash of bit-vector chunk")

    def lift_bv(self, n, t):
        if not hasattr(self, "_lift"): self._lift = {}
        if n not in self._lift:
            self._lift[n] = (z3.Function(f"lift{n}", z3.BitVecSort(8 * n), U), z3.Function(f"unlift{n}", U, z3.BitVecSort(8 * n)))
        f, g = self._lift[n]
        r = f(t); self.solver.add(g(r) == t); self.solver.add(self.lenf(r) == n)
        self.lifts.append((r, n, t)); return r

    def canon(self, sb):
        out, run = [], []
        def flush():
            if run:
                n = sum(x[0] for x in run)
                t = run[0][1] if len(run) == 1 else z3.Concat(*[x[1] for x in run])
                out.append(("a", n, self.lift_bv(n, z3.simplify(t)))); run.clear()
        for c in sb.ch:
            if c[0] == "a": flush(); out.append(c)
            elif c[0] == "c": run.append((len(c[1]), z3.BitVecVal(int.from_bytes(c[1], "big"), 8 * len(c[1]))))
            else: run.append((c[1], c[2]))
        flush()
        r = SBytes.__new__(SBytes); r.ch = tuple(out); return r

    def keccak(self, data):
        concrete_pre = bytes(data) if isinstance(data, (bytes, bytearray)) else None
        sb = self.canon(as_sbytes(data))
        shape = tuple(l for (_, l) in sb.shape())
        if shape not in self.hfuns:
            k = len(shape)
            name = "H_" + "_".join(map(str, shape))
            f = z3.Function(name, *([U] * k), U) if k else z3.Const(name, U)
            inv = [z3.Function(f"{name}_inv{i}", U, U) for i in range(k)]
            self.hfuns[shape] = (f, inv, len(self.hfuns))
        f, inv, tagno = self.hfuns[shape]
        args = [self.chunk_term(c) for c in sb.ch]
        r = f(*args) if args else f
        tag = self.tagfn()
        self.solver.add(tag(r) == tagno)
        self.solver.add(self.lenf(r) == 32)
        # well-foundedness: a hash never occurs inside its own pre-image (directly or transitively); without this
        # EUF admits cyclic "tries" (H(path, c) == c), on which structural walks do not terminate
        if self.use_rank:
            for a in args:
                self.solver.add(self.rank(r) > self.rank(a))
        self.model = None          # new axioms: the cached guiding model may not satisfy them
        for i, a in enumerate(args):
            self.solver.add(inv[i](r) == a)
        self.hash_axioms += 1 + len(args)
        self.stats["keccak"] += 1
        self.hash_apps.append((r, sb))
        if concrete_pre is not None and len(concrete_pre) <= 1:
            # known image: the digest of the empty string / of a single byte is identified with the constant of the REAL digest,
            # so that constants of the code under test (BLANK_HASH, BLANK_NODE_HASH = keccak(rlp(b""))) compare truthfully
            from eth_hash.auto import keccak as real_keccak
            self.solver.add(r == self.const_atom(real_keccak(concrete_pre)))
        return SBytes([("a", 32, r)])

    def rank(self, t):
        if not hasattr(self, "_rank"):
            self._rank = z3.Function("rank", U, z3.IntSort())
        return self._rank(t)

    def tagfn(self):
        if not hasattr(self, "_tag"):
            self._tag = z3.Function("tag", U, z3.IntSort())
        return self._tag

    # ---- solver helpers ----------------------------------------------------------------
    def feasible(self, cond):
        self.stats["feas_checks"] += 1
        t = time.time()
        self.solver.push(); self.solver.add(self.pc_term(), cond)
        r = self.solver.check(); self.solver.pop()
        self.stats["solver_s"] += time.time() - t
        if str(r) == "unknown": raise Unsupported("solver unknown in feasibility")
        return str(r) == "sat"

    def pc_term(self):
        return z3.And(self.pc) if self.pc else z3.BoolVal(True)

    # ---- path exploration ------------------------------------------------------------------
    def explore(self, fn):
        """run fn(engine) over all feasible fork decisions; returns [(pc, result)] per path.

        Decisions are *model guided*: a model M of the current path condition is kept; at a fork the alternative
        that is true under M is followed (so it is feasible without asking the solver) and the other alternatives
        are recorded as deferred obligations.  When the path ends, one query asks whether any deferred alternative
        was feasible after all; every feasible one becomes a new work item (DESIGN 3.2)."""
        work = [[]]
        results = []
        seen = set()
        while work:
            self.log = work.pop(); self.pos = 0; self.pc = []; self.newalts = []
            self.deferred = []; self.model = None
            key = tuple(self.log)
            if key in seen: continue
            seen.add(key)
            try:
                res = fn(self)
            except Infeasible:
                continue
            finally:
                for alt in self.newalts: work.append(alt)
            for alt in self.resolve_deferred(): work.append(alt)
            self.stats["paths"] += 1
            results.append((list(self.pc), res))
        return results

    def resolve_deferred(self):
        """which deferred alternatives are feasible?  One query per feasible alternative plus a final unsat."""
        out = []
        pending = list(self.deferred)
        while pending:
            self.stats["feas_checks"] += 1
            t = time.time()
            terms = [z3.And(pre + [alt]) if pre else alt for (_pos, pre, alt, _j, _lg) in pending]
            r = self.solver.check(z3.Or(terms))
            self.stats["solver_s"] += time.time() - t
            if str(r) == "unsat": break
            if str(r) != "sat": raise Unsupported("solver unknown while closing deferred alternatives")
            m = self.solver.model()
            hit = None
            for k, (_pos, pre, alt, _j, _lg) in enumerate(pending):
                if z3.is_true(m.eval(z3.And(pre + [alt]) if pre else alt, model_completion=True)):
                    hit = k; break
            if hit is None: raise Unsupported("deferred alternative: model evaluates no disjunct to true")
            pos, pre, alt, j, lg = pending.pop(hit)
            out.append(lg[:pos] + [j])
            self.stats["forks"] += 1
        return out

    def current_model(self):
        if self.model is None:
            self.stats["feas_checks"] += 1
            t = time.time()
            r = self.solver.check(*self.pc)
            self.stats["solver_s"] += time.time() - t
            if str(r) == "unsat": raise Infeasible()
            if str(r) != "sat": raise Unsupported("solver unknown in feasibility")
            self.model = self.solver.model()
        return self.model

    def decide(self, alternatives):
        """alternatives: list of z3 conds (mutually exclusive, jointly exhaustive). returns chosen index."""
        if getattr(self, "attempt", 0): raise NeedFork()     # no fork decisions inside a merge attempt
        if self.pos < len(self.log):
            i = self.log[self.pos]
            self.model = None           # the forced alternative need not hold in the cached model
        else:
            m = self.current_model()
            i = None
            for k, c in enumerate(alternatives):
                if z3.is_true(m.eval(c, model_completion=True)):
                    i = k; break
            if i is None:
                # the model is partial for this condition: fall back to explicit feasibility checks
                feas = [k for k, c in enumerate(alternatives) if self.feasible(c)]
                if not feas: raise Infeasible()
                i = feas[0]
                for j in feas[1:]:
                    self.newalts.append(self.log[:self.pos] + [j])
                self.model = None
            else:
                for j, c in enumerate(alternatives):
                    if j != i:
                        sc = z3.simplify(c)
                        if not z3.is_false(sc):
                            self.deferred.append((self.pos, list(self.pc), c, j, list(self.log[:self.pos])))
            self.log = self.log[:self.pos] + [i]
        self.pos += 1
        self.pc.append(alternatives[i])
        return i

    # ---- values -------------------------------------------------------------------------------
    def truth(self, v):
        """-> python bool or SBool"""
        if isinstance(v, SBool): return v
        if isinstance(v, SInt): return SBool(v.t != 0)
        if isinstance(v, SBytes): return len(v) > 0
        if isinstance(v, PList): return len(v.items) > 0
        if isinstance(v, SMap): return len(v.entries) > 0
        return bool(v)

    def branch_on(self, v):
        """force a python bool out of a truth value (fork if symbolic)"""
        t = self.truth(v)
        if isinstance(t, bool): return t
        s = z3.simplify(t.t)
        if z3.is_true(s): return True
        if z3.is_false(s): return False
        return self.decide([t.t, z3.Not(t.t)]) == 0

    def bytes_eq(self, a, b):
        a, b = as_sbytes(a), as_sbytes(b)
        if len(a) != len(b): return False
        if a.shape() != b.shape():
            # try to split concrete chunks along the other's boundaries
            a, b = self.align(a, b)
        conds = []
        for x, y in zip(a.ch, b.ch):
            if x[0] == "c" and y[0] == "c":
                if x[1] != y[1]: return False
            elif "bv" in (x[0], y[0]):
                tx = x[2] if x[0] == "bv" else z3.BitVecVal(int.from_bytes(x[1], "big"), 8 * len(x[1]))
                ty = y[2] if y[0] == "bv" else z3.BitVecVal(int.from_bytes(y[1], "big"), 8 * len(y[1]))
                if x[0] == "a" or y[0] == "a": raise Unsupported("atom vs bv compare")
                conds.append(tx == ty)
            else:
                conds.append(self.chunk_term(x) == self.chunk_term(y))
        if not conds: return True
        return SBool(z3.And(conds) if len(conds) > 1 else conds[0])

    def align(self, a, b):
        def cuts(s):
            pos, out = 0, set()
            for c in s.ch:
                pos += len(c[1]) if c[0] == "c" else c[1]; out.add(pos)
            return out
        allc = sorted(cuts(a) | cuts(b))
        def split(s):
            out, pos, it = [], 0, iter(allc)
            for c in s.ch:
                n = len(c[1]) if c[0] == "c" else c[1]
                inner = [p for p in allc if pos < p < pos + n]
                if inner:
                    if c[0] == "a": raise Unsupported("cannot split atom chunk")
                    prev = pos
                    for p in inner + [pos + n]:
                        if c[0] == "c": out.append(("c!", c[1][prev - pos:p - pos]))
                        else: out.append(("bv", p - prev, z3.Extract(8 * (pos + n - prev) - 1, 8 * (pos + n - p), c[2])))
                        prev = p
                else:
                    out.append(("c!", c[1]) if c[0] == "c" else c)
                pos += n
            r = SBytes.__new__(SBytes); r.ch = tuple(("c", x[1]) if x[0] == "c!" else x for x in out); return r
        return split(a), split(b)

    def slice_bytes(self, sb, lo, hi):
        sb = as_sbytes(sb); n = len(sb)
        lo = 0 if lo is None else (lo + n if lo < 0 else lo); hi = n if hi is None else (hi + n if hi < 0 else hi)
        lo, hi = max(0, min(n, lo)), max(0, min(n, hi))
        out, pos = [], 0
        for c in sb.ch:
            m = len(c[1]) if c[0] == "c" else c[1]
            a, b = max(lo, pos), min(hi, pos + m)
            if a < b:
                if c[0] == "c": out.append(("c", c[1][a - pos:b - pos]))
                elif a == pos and b == pos + m: out.append(c)
                elif c[0] == "bv": out.append(("bv", b - a, z3.Extract(8 * (pos + m - a) - 1, 8 * (pos + m - b), c[2])))
                else: raise Unsupported("slice through an atom")
            pos += m
        return simplify_bytes(SBytes(out))

    # ---- merging ----------------------------------------------------------------------------------
    def merge(self, c, a, b, memo, targets=None):
        targets = targets if targets is not None else {}
        if a is b: return a
        key = (id(a), id(b))
        if key in memo: return memo[key]
        tgt = targets.get(key)
        if isinstance(a, (bool, int)) and isinstance(b, (bool, int)) and not isinstance(a, bool) == isinstance(b, bool) and a == b: return a
        if type(a) in (int, bool, bytes, str, type(None)) and type(a) is type(b) and a == b: return a
        if isinstance(a, SBool) or isinstance(b, SBool) or (isinstance(a, bool) and isinstance(b, bool)):
            ta = a.t if isinstance(a, SBool) else z3.BoolVal(a); tb = b.t if isinstance(b, SBool) else z3.BoolVal(b)
            return SBool(z3.If(c, ta, tb))
        if isinstance(a, (SBytes, bytes)) and isinstance(b, (SBytes, bytes)):
            a2, b2 = as_sbytes(a), as_sbytes(b)
            if len(a2) != len(b2): raise NeedFork()
            if a2.shape() != b2.shape(): a2, b2 = self.align(a2, b2)
            out = []
            for x, y in zip(a2.ch, b2.ch):
                if x[0] == "c" and y[0] == "c" and x[1] == y[1]: out.append(x)
                elif x[0] == "bv" or y[0] == "bv" or (x[0] == "c" and y[0] == "c"):
                    if x[0] == "a" or y[0] == "a": raise NeedFork()
                    n = len(x[1]) if x[0] == "c" else x[1]
                    tx = x[2] if x[0] == "bv" else z3.BitVecVal(int.from_bytes(x[1], "big"), 8 * n)
                    ty = y[2] if y[0] == "bv" else z3.BitVecVal(int.from_bytes(y[1], "big"), 8 * n)
                    out.append(("bv", n, z3.If(c, tx, ty)))
                else:
                    n = len(x[1]) if x[0] == "c" else x[1]
                    out.append(("a", n, z3.If(c, self.chunk_term(x), self.chunk_term(y))))
            return SBytes(out)
        if (isinstance(a, SInt) or isinstance(b, SInt)) and all(isinstance(x, (SInt, int)) and not isinstance(x, bool) for x in (a, b)):
            if any(isinstance(x, int) and x < 0 for x in (a, b)): raise NeedFork()
            w = max(x.w if isinstance(x, SInt) else max(1, x.bit_length()) for x in (a, b))
            ta = z3.ZeroExt(w - a.w, a.t) if isinstance(a, SInt) else z3.BitVecVal(a, w)
            tb = z3.ZeroExt(w - b.w, b.t) if isinstance(b, SInt) else z3.BitVecVal(b, w)
            return SInt(z3.If(c, ta, tb), w)
        if isinstance(a, tuple) and isinstance(b, tuple) and len(a) == len(b):
            return tuple(self.merge(c, x, y, memo, targets) for x, y in zip(a, b))
        if isinstance(a, PList) and isinstance(b, PList) and len(a.items) == len(b.items):
            r = tgt if tgt is not None else PList([]); memo[key] = r
            r.items = [self.merge(c, x, y, memo, targets) for x, y in zip(a.items, b.items)]; return r
        if isinstance(a, dict) and isinstance(b, dict) and a.keys() == b.keys():
            r = tgt if tgt is not None else {}; memo[key] = r
            new = {k: (a[k] if k == "__globals__" else self.merge(c, a[k], b[k], memo, targets)) for k in a}
            r.clear(); r.update(new)
            return r
        if isinstance(a, PObj) and isinstance(b, PObj) and a.cls is b.cls:
            r = tgt if tgt is not None else PObj(a.cls); memo[key] = r
            r.attrs = self.merge(c, a.attrs, b.attrs, memo, targets); return r
        if isinstance(a, SMap) and isinstance(b, SMap):
            if len(a.entries) != len(b.entries): raise NeedFork()
            r = tgt if tgt is not None else SMap(); memo[key] = r
            r.entries = [(self.merge(c, ka, kb, memo, targets), self.merge(c, va, vb, memo, targets)) for (ka, va), (kb, vb) in zip(a.entries, b.entries)]
            return r
        if isinstance(a, list) and isinstance(b, list) and len(a) == len(b):
            r = tgt if tgt is not None else []; memo[key] = r
            new = [self.merge(c, x, y, memo, targets) for x, y in zip(a, b)]
            r[:] = new; return r
        if isinstance(a, BoundMethod) and isinstance(b, BoundMethod) and a.fn is b.fn:
            return BoundMethod(a.fn, self.merge(c, a.obj, b.obj, memo, targets))
        raise NeedFork()


class Interp:
    def __init__(self, eng):
        self.e = eng
        self.frames = []      # list of dict (locals)

    # ---- function sources ---------------------------------------------------------------------
    def fn_ast(self, fn):
        if fn not in self.e.src_cache:
            src = textwrap.dedent(inspect.getsource(fn))
            node = ast.parse(src).body[0]
            self.e.src_cache[fn] = node
            self.e.functions_encoded.add(f"{fn.__module__}.{fn.__qualname__}")
        return self.e.src_cache[fn]

    def call(self, fn, args, kwargs=None):
        kwargs = kwargs or {}
        if fn in self.e.stubs: return self.e.stubs[fn](self, *args, **kwargs)
        if isinstance(fn, types.MethodType) and isinstance(fn.__self__, type):  # classmethod bound to a real class
            return self.call(fn.__func__, [fn.__self__] + list(args), kwargs)
        if isinstance(fn, BoundMethod):
            return self.call(fn.fn, [fn.obj] + list(args), kwargs)
        if isinstance(fn, BuiltinMethod):
            return fn(*args, **kwargs)
        if fn in BUILTINS: return BUILTINS[fn](self, *args, **kwargs)
        if isinstance(fn, type):
            if issubclass(fn, BaseException):
                cargs = [a if not isinstance(a, (SBytes, SInt, SBool)) else "<sym>" for a in args]
                return fn(*cargs)
            if fn.__module__.split(".")[0] in INTERP_MODULES:
                obj = PObj(fn)
                init = fn.__init__
                self.call(init, [obj] + list(args), kwargs)
                return obj
            if fn in (tuple, list): return self.builtin_seq(fn, *args)
            raise Unsupported(f"class {fn}")
        if isinstance(fn, types.FunctionType) and fn.__module__ and fn.__module__.split(".")[0] in INTERP_MODULES:
            return self.run_function(fn, args, kwargs)
        if fn in BUILTINS: return BUILTINS[fn](self, *args, **kwargs)
        raise Unsupported(f"call to {fn!r}")

    def run_function(self, fn, args, kwargs):
        if len(self.frames) > self.e.max_depth:
            raise Unsupported(f"call depth bound {self.e.max_depth} exceeded (unwinding assertion) in {getattr(fn, '__qualname__', fn)}; stack: " + " > ".join(self.names[-12:]))
        fn = inspect.unwrap(fn)
        node = self.fn_ast(fn)
        a = node.args
        names = [x.arg for x in a.args]
        loc = {}
        defaults = dict(zip(names[len(names) - len(a.defaults):], fn.__defaults__ or ()))
        for n, v in zip(names, args): loc[n] = v
        for n in names[len(args):]:
            if n in kwargs: loc[n] = kwargs[n]
            elif n in defaults: loc[n] = defaults[n]
            else: raise Unsupported(f"missing arg {n}")
        loc["__globals__"] = fn.__globals__
        is_gen = any(isinstance(x, (ast.Yield, ast.YieldFrom)) for x in ast.walk(node))
        if is_gen: loc["__yield__"] = PList([])
        self.frames.append(loc)
        if not hasattr(self, "names"): self.names = []
        self.names.append(getattr(fn, "__name__", "?"))
        try:
            try:
                self.block(node.body); res = None
            except Ret as r:
                res = r.v
            if is_gen: res = self.frames[-1]["__yield__"]
        finally:
            self.frames.pop(); self.names.pop()
        for d in reversed(node.decorator_list):
            dv = eval(compile(ast.Expression(d), "<dec>", "eval"), fn.__globals__)
            if dv in (classmethod, staticmethod, property): continue
            conv = DECORATOR_CONVERTERS.get(dv)
            if conv is None and isinstance(d, ast.Call):
                conv = eval(compile(ast.Expression(d.args[0]), "<dec>", "eval"), fn.__globals__)
            if conv is None: raise Unsupported(f"decorator {ast.dump(d)}")
            res = self.call(conv, [res])
        return res

    # ---- statements ----------------------------------------------------------------------------------
    def block(self, stmts):
        for s in stmts: self.stmt(s)

    def stmt(self, s):
        m = getattr(self, "s_" + type(s).__name__, None)
        if m is None: raise Unsupported(f"stmt {type(s).__name__} line {s.lineno}")
        return m(s)

    def s_Expr(self, s):
        if isinstance(s.value, ast.Constant): return
        self.ev(s.value)
    def s_Pass(self, s): pass
    def e_Yield(self, n):
        v = self.ev(n.value) if n.value is not None else None      # evaluate first: a merge inside may replace the frame's list
        self.frames[-1]["__yield__"].items.append(v); return None
    def e_YieldFrom(self, n):
        vals = self.iterate(self.ev(n.value))
        self.frames[-1]["__yield__"].items.extend(vals); return None
    def comp(self, n, elt_fn):
        out = []
        def rec(i):
            if i == len(n.generators): out.append(elt_fn()); return
            g = n.generators[i]
            for x in self.iterate(self.ev(g.iter)):
                self.assign(g.target, x)
                if all(self.e.branch_on(self.ev(c)) for c in g.ifs): rec(i + 1)
        rec(0); return out
    def e_GeneratorExp(self, n): return PList(self.comp(n, lambda: self.ev(n.elt)))
    def e_ListComp(self, n): return PList(self.comp(n, lambda: self.ev(n.elt)))
    def e_Set(self, n): return frozenset(self.ev(x) for x in n.elts)
    def s_Return(self, s): raise Ret(self.ev(s.value) if s.value else None)
    def s_Break(self, s): raise Brk()
    def s_Continue(self, s): raise Cont()
    def s_Raise(self, s):
        exc = self.ev(s.exc)
        if isinstance(exc, type): exc = exc()
        raise Raised(exc)
    def s_Delete(self, s):
        for t in s.targets:
            if isinstance(t, ast.Subscript):
                obj = self.ev(t.value); idx = self.ev(t.slice)
                if isinstance(obj, SMap):
                    self.smap_get(obj, idx)          # KeyError when absent
                    obj.entries.append((idx, TOMB)); continue
                if isinstance(obj, dict): del obj[idx]; continue
                if isinstance(obj, PList) and isinstance(idx, int): del obj.items[idx]; continue
            raise Unsupported("del target")

    def smap_contains(self, m, key):
        eqs = []
        for (k, v) in m.entries:
            r = self.e.bytes_eq(k, key)
            eqs.append(z3.BoolVal(r) if isinstance(r, bool) else r.t)
        conds = []
        for i, (k, v) in enumerate(m.entries):
            if v is TOMB: continue
            conds.append(z3.And([eqs[i]] + [z3.Not(x) for x in eqs[i + 1:]]))
        t = z3.simplify(z3.Or(conds)) if conds else z3.BoolVal(False)
        if z3.is_true(t): return True
        if z3.is_false(t): return False
        return SBool(t)

    def s_Assert(self, s):
        if not self.e.branch_on(self.ev(s.test)): raise Raised(AssertionError())

    def s_Assign(self, s):
        v = self.ev(s.value)
        for t in s.targets: self.assign(t, v)
    def s_AugAssign(self, s):
        cur = self.ev(ast.copy_location(ast.Name(id=s.target.id, ctx=ast.Load()), s)) if isinstance(s.target, ast.Name) else self.ev(s.target)
        self.assign(s.target, self.binop(type(s.op), cur, self.ev(s.value)))

    def assign(self, t, v):
        if isinstance(t, ast.Name): self.frames[-1][t.id] = v
        elif isinstance(t, (ast.Tuple, ast.List)):
            items = v.items if isinstance(v, PList) else v
            if len(items) != len(t.elts): raise Unsupported("unpack length")
            for tt, vv in zip(t.elts, items): self.assign(tt, vv)
        elif isinstance(t, ast.Attribute):
            obj = self.ev(t.value)
            if not isinstance(obj, PObj): raise Unsupported("setattr on non-PObj")
            obj.attrs[t.attr] = v
        elif isinstance(t, ast.Subscript):
            obj = self.ev(t.value); idx = self.ev(t.slice)
            if isinstance(obj, PList):
                if not isinstance(idx, int): raise Unsupported("symbolic list index store")
                obj.items[idx] = v
            elif isinstance(obj, SMap): obj.entries.append((idx, v))
            elif isinstance(obj, dict): obj[idx] = v
            else: raise Unsupported(f"subscript store on {type(obj)}")
        else: raise Unsupported(f"assign target {type(t).__name__}")

    def s_If(self, s):
        t = self.e.truth(self.ev(s.test))
        if isinstance(t, SBool):
            st = z3.simplify(t.t)
            if z3.is_true(st): t = True
            elif z3.is_false(st): t = False
        if isinstance(t, bool):
            return self.block(s.body if t else s.orelse)
        # symbolic: try to merge
        saved = self.frames
        ma, mb = {}, {}
        fa = clone(saved, ma); fb = clone(saved, mb)
        pos0, pc0, log0, alts0 = self.e.pos, list(self.e.pc), list(self.e.log), list(self.e.newalts)
        try:
            for fr, body in ((fa, s.body), (fb, s.orelse)):
                self.frames = fr
                self.e.attempt = getattr(self.e, "attempt", 0) + 1
                try:
                    self.block(body)
                except (Ret, Brk, Cont, Raised, Infeasible):
                    raise NeedFork()
                finally:
                    self.e.attempt -= 1
                if self.e.pos != pos0: raise NeedFork()      # a fork decision inside an arm: do not merge
            targets = {(id(ma[i][1]), id(mb[i][1])): ma[i][0] for i in ma if i in mb}
            self.frames = saved
            # dry-run merge first (may raise NeedFork) on throwaway targets, then commit in place
            self.e.merge(t.t, fa, fb, {}, {})
            self.e.merge(t.t, fa, fb, {}, targets)
            self.e.stats["merges"] += 1
            return
        except NeedFork:
            self.frames = saved
            self.e.pos, self.e.pc, self.e.log, self.e.newalts = pos0, pc0, log0, alts0
        if self.e.decide([t.t, z3.Not(t.t)]) == 0: self.block(s.body)
        else: self.block(s.orelse)

    def s_For(self, s):
        it = self.ev(s.iter)
        items = self.iterate(it)
        for x in items:
            self.assign(s.target, x)
            try: self.block(s.body)
            except Brk: break
            except Cont: continue
        else:
            self.block(s.orelse)

    def s_While(self, s):
        for _ in range(self.e.unwind):
            if not self.e.branch_on(self.ev(s.test)):
                self.block(s.orelse); return
            try: self.block(s.body)
            except Brk: return
            except Cont: continue
        raise Unsupported(f"unwinding bound {self.e.unwind} exceeded in while loop at line {s.lineno}")

    def s_ImportFrom(self, s):
        import importlib
        mod = importlib.import_module(s.module)
        for a in s.names: self.frames[-1][a.asname or a.name] = getattr(mod, a.name)

    def s_Import(self, s):
        import importlib
        for a in s.names: self.frames[-1][a.asname or a.name.split(".")[0]] = importlib.import_module(a.name.split(".")[0])

    def e_DictComp(self, n):
        m = SMap()
        def add():
            m.entries.append((self.ev(n.key), self.ev(n.value)))
        self.comp(n, add)
        return m

    def s_Try(self, s):
        try:
            self.block(s.body)
        except Raised as r:
            for h in s.handlers:
                et = self.ev(h.type) if h.type else BaseException
                if isinstance(r.exc, et):
                    if h.name: self.frames[-1][h.name] = r.exc
                    self.block(h.body); break
            else:
                self.block(s.finalbody); raise
        else:
            self.block(s.orelse)
        self.block(s.finalbody)

    # ---- expressions ----------------------------------------------------------------------------------
    def ev(self, n):
        m = getattr(self, "e_" + type(n).__name__, None)
        if m is None: raise Unsupported(f"expr {type(n).__name__} line {n.lineno}")
        try:
            return m(n)
        except (IndexError, KeyError, ValueError, TypeError, ZeroDivisionError, AttributeError, OverflowError) as ex:
            # a concrete Python operation of the interpreted program failed: that is the program's exception.
            # (should it be an interpreter defect instead, the native replay will not reproduce it and the
            # obligation is reported as a harness error, never as a violation)
            raise Raised(ex)

    def e_Constant(self, n): return n.value
    def e_JoinedStr(self, n): return "<fstring>"
    def e_Name(self, n):
        loc = self.frames[-1]
        if n.id in loc: return loc[n.id]
        g = loc["__globals__"]
        if n.id in g: return g[n.id]
        import builtins
        if hasattr(builtins, n.id): return getattr(builtins, n.id)
        raise Unsupported(f"name {n.id}")
    def e_Tuple(self, n): return tuple(self.ev(x) for x in n.elts)
    def e_List(self, n): return PList([self.ev(x) for x in n.elts])
    def e_Dict(self, n):
        if n.keys: raise Unsupported("non-empty dict literal")
        return SMap()
    def e_IfExp(self, n):
        t = self.e.truth(self.ev(n.test))
        if isinstance(t, SBool):
            st = z3.simplify(t.t)
            if z3.is_true(st): t = True
            elif z3.is_false(st): t = False
        if isinstance(t, bool):
            return self.ev(n.body) if t else self.ev(n.orelse)
        return self.merged_choice(t.t, lambda: self.ev(n.body), lambda: self.ev(n.orelse))

    def merged_choice(self, c, thunk_a, thunk_b):
        """value of `a if c else b` with both arms executed on copies of the state and merged by ite;
        falls back to a fork when the arms cannot be merged"""
        saved = self.frames
        ma, mb = {}, {}
        fa = clone(saved, ma); fb = clone(saved, mb)
        pos0, pc0, log0, alts0 = self.e.pos, list(self.e.pc), list(self.e.log), list(self.e.newalts)
        try:
            res = []
            for fr, th in ((fa, thunk_a), (fb, thunk_b)):
                self.frames = fr
                self.e.attempt = getattr(self.e, "attempt", 0) + 1
                try:
                    res.append(th())
                except (Ret, Brk, Cont, Raised, Infeasible):
                    raise NeedFork()
                finally:
                    self.e.attempt -= 1
                if self.e.pos != pos0: raise NeedFork()
            for r in res:
                if has_mutable(r): raise NeedFork()
            targets = {(id(ma[i][1]), id(mb[i][1])): ma[i][0] for i in ma if i in mb}
            self.frames = saved
            val = self.e.merge(c, res[0], res[1], {}, {})
            self.e.merge(c, fa, fb, {}, {})
            self.e.merge(c, fa, fb, {}, targets)
            self.e.stats["merges"] += 1
            return val
        except NeedFork:
            self.frames = saved
            self.e.pos, self.e.pc, self.e.log, self.e.newalts = pos0, pc0, log0, alts0
        if self.e.decide([c, z3.Not(c)]) == 0: return thunk_a()
        return thunk_b()
    def e_UnaryOp(self, n):
        v = self.ev(n.operand)
        if isinstance(n.op, ast.Not):
            t = self.e.truth(v)
            return (not t) if isinstance(t, bool) else SBool(z3.Not(t.t))
        if isinstance(n.op, ast.USub) and isinstance(v, int): return -v
        raise Unsupported("unary")
    def e_BoolOp(self, n):
        # `a and b` == `b if a else a`; symbolic operands are merged (both sides run on state copies)
        is_and = isinstance(n.op, ast.And)
        def rec(i):
            v = self.ev(n.values[i])
            if i == len(n.values) - 1: return v
            t = self.e.truth(v)
            if isinstance(t, SBool):
                st = z3.simplify(t.t)
                if z3.is_true(st): t = True
                elif z3.is_false(st): t = False
            if isinstance(t, bool):
                return rec(i + 1) if t == is_and else v
            if is_and: return self.merged_choice(t.t, lambda: rec(i + 1), lambda: v)
            return self.merged_choice(t.t, lambda: v, lambda: rec(i + 1))
        return rec(0)
    def e_BinOp(self, n): return self.binop(type(n.op), self.ev(n.left), self.ev(n.right))

    def binop(self, op, a, b):
        if not isinstance(a, (SInt, SBytes, SBool)) and not isinstance(b, (SInt, SBytes, SBool)):
            import operator
            f = {ast.Add: operator.add, ast.Sub: operator.sub, ast.Mult: operator.mul, ast.LShift: operator.lshift,
                 ast.RShift: operator.rshift, ast.BitAnd: operator.and_, ast.BitXor: operator.xor, ast.BitOr: operator.or_,
                 ast.FloorDiv: operator.floordiv, ast.Mod: operator.mod, ast.Pow: operator.pow}[op]
            if isinstance(a, tuple) and isinstance(b, tuple) and op is ast.Add: return a + b
            if isinstance(a, PList) and isinstance(b, PList) and op is ast.Add: return PList(a.items + b.items)
            if isinstance(a, PList) and isinstance(b, int) and op is ast.Mult: return PList(a.items * b)
            if op is ast.Pow: return a ** b
            return f(a, b)
        if op is ast.Add and (isinstance(a, (SBytes, bytes)) and isinstance(b, (SBytes, bytes))):
            return simplify_bytes(SBytes(as_sbytes(a).ch + as_sbytes(b).ch))
        if isinstance(a, SBool): a = SInt(z3.If(a.t, z3.BitVecVal(1, 1), z3.BitVecVal(0, 1)), 1)
        if isinstance(b, SBool): b = SInt(z3.If(b.t, z3.BitVecVal(1, 1), z3.BitVecVal(0, 1)), 1)
        if isinstance(a, SInt) or isinstance(b, SInt):
            w = max(a.w if isinstance(a, SInt) else max(1, a.bit_length()), b.w if isinstance(b, SInt) else max(1, b.bit_length()))
            ta = z3.ZeroExt(w - a.w, a.t) if isinstance(a, SInt) else z3.BitVecVal(a, w)
            tb = z3.ZeroExt(w - b.w, b.t) if isinstance(b, SInt) else z3.BitVecVal(b, w)
            if isinstance(a, int) and a < 0 or isinstance(b, int) and b < 0: raise Unsupported("negative with symbolic int")
            if op is ast.Add:
                return SInt(z3.ZeroExt(1, ta) + z3.ZeroExt(1, tb), w + 1)
            if op is ast.Mult:
                return SInt(z3.ZeroExt(w, ta) * z3.ZeroExt(w, tb), 2 * w)
            if op in (ast.Mod, ast.FloorDiv) and isinstance(b, int) and b > 0 and b & (b - 1) == 0:
                k = b.bit_length() - 1
                if op is ast.Mod: return SInt(z3.Extract(k - 1, 0, ta), k) if k else 0
                return SInt(z3.Extract(w - 1, k, ta), w - k) if k < w else 0
            if op is ast.RShift and isinstance(b, int):
                return SInt(z3.Extract(w - 1, b, ta), w - b) if b < w else 0
            if op is ast.BitAnd: return SInt(ta & tb, w)
            if op is ast.BitXor: return SInt(ta ^ tb, w)
            if op is ast.BitOr: return SInt(ta | tb, w)
            raise Unsupported(f"symbolic int op {op.__name__}")
        raise Unsupported(f"binop {op.__name__} on {type(a).__name__},{type(b).__name__}")

    def e_Compare(self, n):
        left = self.ev(n.left); res = True
        for op, rn in zip(n.ops, n.comparators):
            right = self.ev(rn)
            r = self.compare(type(op), left, right)
            if len(n.ops) == 1: return r
            if not self.e.branch_on(r): return False
            left = right
        return res

    def compare(self, op, a, b):
        if op in (ast.In, ast.NotIn) and isinstance(b, SMap):
            r = self.smap_contains(b, a)
            if op is ast.In: return r
            return (not r) if isinstance(r, bool) else SBool(z3.Not(r.t))
        if op in (ast.In, ast.NotIn):
            items = self.iterate(b) if not isinstance(b, (set, frozenset, dict)) else list(b)
            if has_sym(a) or any(has_sym(x) for x in items):
                t = z3.Or([self.sym_eq(x, a) for x in items]) if items else z3.BoolVal(False)
                return SBool(t if op is ast.In else z3.Not(t))
            r = a in items
            return r if op is ast.In else not r
        if (isinstance(a, tuple) or isinstance(b, tuple)) and (has_sym(a) or has_sym(b)) and op in (ast.Eq, ast.NotEq):
            a2 = tuple(a.items) if isinstance(a, PList) else a; b2 = tuple(b.items) if isinstance(b, PList) else b
            t = self.sym_eq(a2, b2)
            return SBool(t if op is ast.Eq else z3.Not(t))
        if op in (ast.Is, ast.IsNot):
            r = a is b
            return r if op is ast.Is else not r
        if op in (ast.Eq, ast.NotEq) and (isinstance(a, (SBytes, bytes)) != isinstance(b, (SBytes, bytes))) \
                and not isinstance(a, (SInt, SBool)) and not isinstance(b, (SInt, SBool)) and (a is None or b is None or isinstance(a, (str, int)) or isinstance(b, (str, int))):
            return op is ast.NotEq          # bytes never equal None / str / int (Python semantics)
        if isinstance(a, (SBytes, bytes)) and isinstance(b, (SBytes, bytes)) and (isinstance(a, SBytes) or isinstance(b, SBytes)):
            r = self.e.bytes_eq(a, b)
            if op is ast.Eq: return r
            if op is ast.NotEq: return (not r) if isinstance(r, bool) else SBool(z3.Not(r.t))
            raise Unsupported("ordering on symbolic bytes")
        if isinstance(a, SInt) or isinstance(b, SInt):
            w = max(a.w if isinstance(a, SInt) else max(1, a.bit_length()), b.w if isinstance(b, SInt) else max(1, b.bit_length()))
            ta = z3.ZeroExt(w - a.w, a.t) if isinstance(a, SInt) else z3.BitVecVal(a, w)
            tb = z3.ZeroExt(w - b.w, b.t) if isinstance(b, SInt) else z3.BitVecVal(b, w)
            return SBool({ast.Eq: ta == tb, ast.NotEq: ta != tb, ast.Gt: z3.UGT(ta, tb), ast.GtE: z3.UGE(ta, tb),
                          ast.Lt: z3.ULT(ta, tb), ast.LtE: z3.ULE(ta, tb)}[op])
        if isinstance(a, SBool) or isinstance(b, SBool):
            if op in (ast.Eq, ast.NotEq) and all(isinstance(x, (SBool, bool)) for x in (a, b)):
                ta = a.t if isinstance(a, SBool) else z3.BoolVal(a)
                tb = b.t if isinstance(b, SBool) else z3.BoolVal(b)
                return SBool(ta == tb if op is ast.Eq else ta != tb)
            raise Unsupported("compare SBool")
        import operator
        f = {ast.Eq: operator.eq, ast.NotEq: operator.ne, ast.Gt: operator.gt, ast.GtE: operator.ge, ast.Lt: operator.lt,
             ast.LtE: operator.le}.get(op)
        if f is None: raise Unsupported(f"compare {op.__name__}")
        if isinstance(a, PList) or isinstance(b, PList):
            if op in (ast.Eq, ast.NotEq):
                if isinstance(a, PList) and isinstance(b, PList):
                    if len(a.items) != len(b.items): r = False
                    else:
                        t = self.sym_eq_seq(a.items, b.items)
                        if not isinstance(t, bool): return SBool(t if op is ast.Eq else z3.Not(t))
                        r = t
                else:
                    r = False          # a list never equals a non-list (bytes, tuple, None ...)
                return r if op is ast.Eq else not r
            raise Unsupported("ordering on lists")
        return f(a, b)

    def e_Attribute(self, n):
        obj = self.ev(n.value)
        return self.getattr(obj, n.attr)

    def getattr(self, obj, name):
        if isinstance(obj, PObj):
            if name in obj.attrs: return obj.attrs[name]
            d = inspect.getattr_static(obj.cls, name)
            if isinstance(d, property): return self.call(d.fget, [obj])
            if isinstance(d, classmethod): return BoundMethod(d.__func__, obj.cls)
            if isinstance(d, staticmethod): return d.__func__
            if isinstance(d, types.FunctionType): return BoundMethod(d, obj)
            return d
        if isinstance(obj, SMap):
            if name == "pop":
                def pop(k, *d):
                    try:
                        v = self.smap_get(obj, k)
                    except Raised as r:
                        if isinstance(r.exc, KeyError) and d: return d[0]
                        raise
                    obj.entries.append((k, TOMB))
                    return v
                return BuiltinMethod(pop)
            if name == "get":
                def get(k, d=None):
                    try: return self.smap_get(obj, k)
                    except Raised as r:
                        if isinstance(r.exc, KeyError): return d
                        raise
                return BuiltinMethod(get)
            if name == "copy":
                def cp():
                    c = SMap(); c.entries = list(obj.entries); return c
                return BuiltinMethod(cp)
            raise Unsupported(f"dict.{name} on a symbolic map")
        if isinstance(obj, PList):
            if name == "append": return BuiltinMethod(lambda v: obj.items.append(v))
            if name == "extend": return BuiltinMethod(lambda v: obj.items.extend(self.iterate(v)))
            if name == "pop": return BuiltinMethod(lambda *a: obj.items.pop(*a))
            if name == "insert": return BuiltinMethod(lambda i, v: obj.items.insert(i, v))
            raise Unsupported(f"list.{name}")
        if isinstance(obj, BaseException) and name == "args": return obj.args
        if isinstance(obj, list) and name == "index":
            def index(v):
                conds = [self.sym_eq_any(x, v) for x in obj]
                alts = [z3.And([c] + [z3.Not(p) for p in conds[:i]]) for i, c in enumerate(conds)] + [z3.Not(z3.Or(conds))]
                i = self.e.decide(alts)
                if i == len(obj): raise Raised(ValueError("not in list"))
                return i
            return BuiltinMethod(index)
        if isinstance(obj, (types.ModuleType, type)): return getattr(obj, name)
        raise Unsupported(f"getattr {type(obj).__name__}.{name}")

    def e_Subscript(self, n):
        obj = self.ev(n.value)
        if isinstance(n.slice, ast.Slice):
            lo = self.ev(n.slice.lower) if n.slice.lower else None
            hi = self.ev(n.slice.upper) if n.slice.upper else None
            if n.slice.step: raise Unsupported("slice step")
            if isinstance(obj, (SBytes, bytes)): return self.e.slice_bytes(obj, lo, hi)
            if isinstance(obj, tuple): return obj[lo:hi]
            if isinstance(obj, PList): return PList(obj.items[lo:hi])
            raise Unsupported("slice of " + type(obj).__name__)
        idx = self.ev(n.slice)
        if isinstance(obj, SMap): return self.smap_get(obj, idx)
        if isinstance(obj, (SBytes, bytes)) and isinstance(idx, int):
            sb = as_sbytes(obj); n = len(sb); i = idx + n if idx < 0 else idx; pos = 0
            if not 0 <= i < n: raise Raised(IndexError("index out of range"))
            for c in sb.ch:
                m = len(c[1]) if c[0] == "c" else c[1]
                if pos <= i < pos + m:
                    if c[0] == "c": return c[1][i - pos]
                    if c[0] == "bv": return SInt(z3.Extract(8 * (pos + m - i) - 1, 8 * (pos + m - i - 1), c[2]), 8)
                    raise Unsupported("index into atom bytes")
                pos += m
        if isinstance(obj, dict) and has_sym(idx): return self.table_get(obj, idx)
        if isinstance(obj, (tuple, PList, list)):
            if not isinstance(idx, int): raise Unsupported("symbolic sequence index")
            return (obj.items if isinstance(obj, PList) else obj)[idx]
        if isinstance(obj, dict): return obj[idx]
        raise Unsupported("subscript of " + type(obj).__name__)

    def table_get(self, table, key):
        """concrete table (dict), symbolic key -> ite chain per result component; miss -> KeyError fork"""
        items = list(table.items())
        conds = [self.sym_eq(k, key) for k, _ in items]
        hit = z3.Or([c for c in conds])
        if self.e.decide([hit, z3.Not(hit)]) == 1: raise Raised(KeyError("<sym>"))
        def build(vals):
            v0 = vals[0]
            if isinstance(v0, tuple): return tuple(build([v[i] for v in vals]) for i in range(len(v0)))
            if isinstance(v0, int) and not isinstance(v0, bool):
                w = max(1, max(v.bit_length() for v in vals))
                t = z3.BitVecVal(vals[-1], w)
                for c, v in zip(conds[-2::-1], vals[-2::-1]): t = z3.If(c, z3.BitVecVal(v, w), t)
                return SInt(t, w)
            raise Unsupported("table value type")
        return build([v for _, v in items])

    def sym_eq_seq(self, xs, ys):
        conds = []
        for x, y in zip(xs, ys):
            if isinstance(x, PList) or isinstance(y, PList):
                r = self.compare(ast.Eq, x, y)
            elif isinstance(x, (bytes, SBytes)) and isinstance(y, (bytes, SBytes)):
                r = self.e.bytes_eq(x, y)
            else:
                r = self.compare(ast.Eq, x, y)
            if r is False: return False
            if r is not True: conds.append(r.t)
        if not conds: return True
        return z3.And(conds)

    def sym_eq_any(self, a, b):
        if isinstance(a, (bytes, SBytes)) and isinstance(b, (bytes, SBytes)):
            r = self.e.bytes_eq(a, b); return z3.BoolVal(r) if isinstance(r, bool) else r.t
        return self.sym_eq(a, b)

    def sym_eq(self, a, b):
        """z3 Bool for python-level equality of (possibly nested tuple) ints"""
        if isinstance(a, tuple) or isinstance(b, tuple):
            if not (isinstance(a, tuple) and isinstance(b, tuple)) or len(a) != len(b): return z3.BoolVal(False)
            return z3.And([self.sym_eq(x, y) for x, y in zip(a, b)])
        r = self.compare(ast.Eq, a, b)
        return z3.BoolVal(r) if isinstance(r, bool) else r.t

    def smap_get(self, m, key):
        # newest matching entry wins; group by value shape; fork over feasible shapes (+ miss)
        ents = m.entries
        if not isinstance(key, (bytes, SBytes)):
            raise Raised(KeyError(key))          # only byte strings are ever stored as keys
        eqs = []
        for (k, v) in ents:
            r = self.e.bytes_eq(k, key)
            eqs.append(z3.BoolVal(r) if isinstance(r, bool) else r.t)
        def shape_of(v): return as_sbytes(v).shape() if isinstance(v, (SBytes, bytes)) else ("obj", id(v))
        def lenclass(v): return as_sbytes(v).shape() if isinstance(v, (SBytes, bytes)) else ("tomb" if v is TOMB else -1)
        classes = {}
        for i, (k, v) in enumerate(ents): classes.setdefault(lenclass(v), []).append(i)
        alts, keys = [], []
        for lc, idxs in classes.items():
            conds = []
            for i in idxs:
                later = [eqs[j] for j in range(i + 1, len(ents))]
                conds.append(z3.And([eqs[i]] + [z3.Not(x) for x in later]))
            alts.append(z3.Or(conds)); keys.append(lc)
        alts.append(z3.Not(z3.Or(eqs)) if eqs else z3.BoolVal(True)); keys.append(None)
        alts = [z3.simplify(a) for a in alts]
        live = [(a, k) for a, k in zip(alts, keys) if not z3.is_false(a)]
        if len(live) == 1: choice = live[0][1]; self.e.pc.append(live[0][0]) if not z3.is_true(live[0][0]) else None
        else:
            i = self.e.decide([a for a, _ in live]); choice = live[i][1]
        if choice is None or choice == "tomb": raise Raised(KeyError(key if isinstance(key, bytes) else "<sym>"))
        val = None
        for i in classes[choice]:
            v = ents[i][1]
            if val is None: val = v
            else: val = self.e.merge(eqs[i], v, val, {})    # newer overrides older
        return val

    def e_Call(self, n):
        fn = self.ev(n.func)
        args = [self.ev(a) for a in n.args]
        kwargs = {k.arg: self.ev(k.value) for k in n.keywords}
        return self.call(fn, args, kwargs)

    def iterate(self, it):
        if isinstance(it, PList): return list(it.items)
        if isinstance(it, bytes): return list(it)
        if isinstance(it, SBytes):
            out = []
            for c in it.ch:
                if c[0] == "c": out.extend(c[1])
                elif c[0] == "bv":
                    n = c[1]
                    out.extend(SInt(z3.Extract(8 * (n - i) - 1, 8 * (n - i - 1), c[2]), 8) for i in range(n))
                else: raise Unsupported("iterate over atom bytes")
            return out
        if isinstance(it, (tuple, range, list)): return list(it)
        raise Unsupported("iterate " + type(it).__name__)

    def builtin_seq(self, ty, x=()):
        items = self.iterate(x)
        return tuple(items) if ty is tuple else PList(items)


class BoundMethod:
    def __init__(self, fn, obj): self.fn, self.obj = fn, obj
class BuiltinMethod:
    def __init__(self, f): self.f = f
    def __call__(self, *a, **k): return self.f(*a, **k)


def b_len(ip, x):
    if isinstance(x, (SBytes, bytes)): return len(x)
    if isinstance(x, PList): return len(x.items)
    if isinstance(x, SMap): raise Unsupported("len of symbolic map")
    return len(x)
def b_isinstance(ip, x, t):
    ts = t if isinstance(t, tuple) else (t,)
    if isinstance(x, SBytes): return bytes in ts
    if isinstance(x, SInt): return int in ts
    if isinstance(x, PList): return list in ts
    if isinstance(x, PObj): return any(issubclass(x.cls, q) for q in ts)
    return isinstance(x, t)
def b_reversed(ip, x): return tuple(reversed(ip.iterate(x)))
def b_range(ip, *a): return range(*a)

def has_mutable(v):
    if isinstance(v, (PList, PObj, SMap, dict, list)): return True
    if isinstance(v, tuple): return any(has_mutable(x) for x in v)
    return False


def has_sym(v):
    if isinstance(v, (SInt, SBool, SBytes)): return True
    if isinstance(v, (tuple, list, frozenset)): return any(has_sym(x) for x in v)
    if isinstance(v, PList): return any(has_sym(x) for x in v.items)
    return False
def b_bytes(ip, x=b""):
    if isinstance(x, (bytes, SBytes)): return x
    if isinstance(x, int): return bytes(x)
    ch = []
    for v in ip.iterate(x):
        if isinstance(v, SBool): v = SInt(z3.If(v.t, z3.BitVecVal(1, 8), z3.BitVecVal(0, 8)), 8)
        if isinstance(v, bool): v = int(v)
        if isinstance(v, int): ch.append(("c", bytes([v])))
        else:
            if v.w > 8:
                big = z3.UGT(v.t, z3.BitVecVal(255, v.w))
                if ip.e.decide([z3.Not(big), big]) == 1: raise Raised(ValueError("bytes must be in range(0, 256)"))
                ch.append(("bv", 1, z3.Extract(7, 0, v.t)))
            else: ch.append(("bv", 1, z3.ZeroExt(8 - v.w, v.t) if v.w < 8 else v.t))
    return simplify_bytes(SBytes(ch))
def b_sum(ip, x, start=0):
    acc = start
    for v in ip.iterate(x): acc = ip.binop(ast.Add, acc, v)
    return acc
def b_any(ip, x):
    ts = [ip.e.truth(v) for v in ip.iterate(x)]
    if any(t is True for t in ts): return True
    sy = [t.t for t in ts if isinstance(t, SBool)]
    return SBool(z3.Or(sy)) if sy else False
def b_all(ip, x):
    ts = [ip.e.truth(v) for v in ip.iterate(x)]
    if any(t is False for t in ts): return False
    sy = [t.t for t in ts if isinstance(t, SBool)]
    return SBool(z3.And(sy)) if sy else True
def b_enumerate(ip, x): return tuple(enumerate(ip.iterate(x)))
def b_zip(ip, *xs): return tuple(zip(*[ip.iterate(x) for x in xs]))
def b_chain(ip, *xs): return tuple(v for x in xs for v in ip.iterate(x))
def b_partition(ip, n, x):
    it = ip.iterate(x); return tuple(tuple(it[i:i + n]) for i in range(0, len(it) - n + 1, n))
def b_partition_all(ip, n, x):
    it = ip.iterate(x); return tuple(tuple(it[i:i + n]) for i in range(0, len(it), n))
import itertools as _it, eth_utils as _eu
from eth_utils.toolz import partition as _part, partition_all as _partall
DECORATOR_CONVERTERS = {_eu.to_tuple: tuple, _eu.to_list: list}

def b_bool(ip, x=False):
    t = ip.e.truth(x)
    return t


BUILTINS = {bool: b_bool, min: lambda ip, *a: min(*a), max: lambda ip, *a: max(*a), bytes: b_bytes, sum: b_sum, any: b_any, all: b_all, enumerate: b_enumerate, zip: b_zip, _it.chain: b_chain,
            _part: b_partition, _partall: b_partition_all, len: b_len, isinstance: b_isinstance, reversed: b_reversed, range: b_range,
            tuple: lambda ip, x=(): ip.builtin_seq(tuple, x), list: lambda ip, x=(): ip.builtin_seq(list, x)}
