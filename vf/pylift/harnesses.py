"""Harness functions for Engine L.  Plain Python over the py-trie API: interpreted symbolically by pylift
(together with every py-trie function they call) and executed natively by CPython on replays / witnesses.
Each returns True when the property holds for its inputs (or a pair (holds, reachability-witness))."""
from trie.constants import BLANK_HASH, BRANCH_TYPE, KV_TYPE, LEAF_TYPE, NODE_TYPE_BLANK, NODE_TYPE_BRANCH, NODE_TYPE_EXTENSION, NODE_TYPE_LEAF
from trie.exceptions import InvalidNode, ValidationError
from trie.utils.binaries import decode_from_bin, decode_to_bin_keypath, encode_from_bin_keypath, encode_to_bin
from trie.utils.nibbles import (NIBBLES_LOOKUPS, REVERSE_NIBBLES_LOOKUP, add_nibbles_terminator, bytes_to_nibbles, decode_nibbles, encode_nibbles,
                                is_nibbles_terminated, nibbles_to_bytes, remove_nibbles_terminator)
from trie.utils.nodes import (compute_extension_key, compute_leaf_key, consume_common_prefix, encode_branch_node, encode_kv_node, encode_leaf_node,
                              extract_key, get_common_prefix_length, get_node_type, is_blank_node, is_branch_node, is_extension_node, is_leaf_node,
                              key_starts_with, parse_node)


# ---------------------------------------------------------------------------------------- C16
def yellow_paper_hp(nibs, t):
    """HP(x, t) of the Yellow Paper, Appendix C, written arithmetically"""
    f = 2 if t else 0
    if len(nibs) % 2:
        out = [16 * (f + 1) + nibs[0]]
        rest = nibs[1:]
    else:
        out = [16 * f]
        rest = nibs
    for i in range(0, len(rest), 2):
        out.append(16 * rest[i] + rest[i + 1])
    return bytes(out)


def h_hp(nibs, term):
    full = nibs + (16,) if term else nibs
    enc = encode_nibbles(full)
    dec = decode_nibbles(enc)
    return enc == yellow_paper_hp(nibs, term) and tuple(dec) == tuple(full) and bool(is_nibbles_terminated(dec)) == term


def b_hp(src, n, term):
    return [tuple(src.int(f"n{i}", 8, 0, 15) for i in range(n)), term]


def h_terminator(nibs):
    a = add_nibbles_terminator(nibs)
    return tuple(a) == tuple(nibs) + (16,) and tuple(remove_nibbles_terminator(a)) == tuple(nibs) and tuple(add_nibbles_terminator(a)) == tuple(a) \
        and tuple(remove_nibbles_terminator(nibs)) == tuple(nibs)


def b_terminator(src, n):
    return [tuple(src.int(f"n{i}", 8, 0, 15) for i in range(n))]


def h_bytes_nibbles(b):
    nibs = bytes_to_nibbles(b)
    conds = [len(nibs) == 2 * len(b), nibbles_to_bytes(nibs) == b]
    for i in range(len(b)):
        conds += [nibs[2 * i] * 16 + nibs[2 * i + 1] == b[i], nibs[2 * i] < 16, nibs[2 * i + 1] < 16]
    return all(conds)


def b_bytes_nibbles(src, n):
    return [src.bv("b", n) if n else b""]


def h_nibbles_bytes(nibs):
    """nibbles_to_bytes is injective on what it accepts: whatever it returns converts back to the same nibbles (so an
    odd-length sequence can only be refused)"""
    from trie.exceptions import InvalidNibbles
    try:
        b = nibbles_to_bytes(nibs)
    except InvalidNibbles:
        return len(nibs) % 2 == 1
    return tuple(bytes_to_nibbles(b)) == tuple(nibs)


def b_nibbles_bytes(src, n):
    return [tuple(src.int(f"n{i}", 8, 0, 15) for i in range(n))]


def h_tables(b, hi, lo):
    return NIBBLES_LOOKUPS[b] == (b // 16, b % 16) and REVERSE_NIBBLES_LOOKUP[(hi, lo)] == hi * 16 + lo


def b_tables(src):
    return [src.int("b", 8), src.int("hi", 8, 0, 15), src.int("lo", 8, 0, 15)]


def h_bin(b):
    bits = encode_to_bin(b)
    return all([len(bits) == 8 * len(b), decode_from_bin(bits) == b] + [x < 2 for x in bits])


def b_bin(src, n):
    return [src.bv("b", n) if n else b""]


def h_bits_roundtrip(bits):
    return encode_to_bin(decode_from_bin(bits)) == bits


def bits_of(src, n, name="x"):
    return src.mk_bytes([src.int(f"{name}{i}", 8, 0, 1) for i in range(n)]) if n else b""


def b_bits_roundtrip(src, n):
    return [bits_of(src, n)]


def h_keypath(bits):
    enc = encode_from_bin_keypath(bits)
    return decode_to_bin_keypath(enc) == bits and len(enc) == (len(bits) + 4 + 7) // 8


def b_keypath(src, n):
    return [bits_of(src, n)]


def h_kv_node(bits, h):
    node = encode_kv_node(bits, h)
    t, kp, child = parse_node(node)
    return t == KV_TYPE and kp == bits and child == h and node[0] == 0


def b_kv_node(src, n):
    return [bits_of(src, n), src.atom("h", 32)]


def h_branch_node(left, right):
    node = encode_branch_node(left, right)
    t, a, b = parse_node(node)
    return t == BRANCH_TYPE and a == left and b == right and len(node) == 65


def b_branch_node(src):
    return [src.atom("l", 32), src.atom("r", 32)]


def h_leaf_node(v):
    node = encode_leaf_node(v)
    t, a, b = parse_node(node)
    return t == LEAF_TYPE and a is None and b == v


def b_leaf_node(src, n):
    return [src.atom("v", n)]


def h_parse_rejects(node):
    """binary nodes that are empty, carry an unknown type byte or have an impossible length -> InvalidNode
    (any other exception escaping parse_node for such a node is a violation as well)"""
    bad = len(node) == 0
    if not bad:
        t = node[0]
        bad = t > 2 or (t == 1 and len(node) != 65) or (t == 0 and len(node) <= 33) or (t == 2 and len(node) == 1)
    if not bad:
        return True          # well-formed nodes are the subject of the round-trip obligations; a kv node whose packed key
        #                      path is itself malformed is not among the rejections the property lists
    try:
        parse_node(node)
    except InvalidNode:
        return True
    return False


def b_parse_rejects(src, n):
    if n == 0:
        return [b""]
    rest = src.bv("rest", n - 1) if n > 1 else b""
    return [src.mk_bytes([src.int("t", 8)]) + rest]


def h_hex_leaf(nibs, v):
    node = [compute_leaf_key(nibs), v]
    return get_node_type(node) == NODE_TYPE_LEAF and tuple(extract_key(node)) == tuple(nibs)


def h_hex_ext(nibs, v):
    node = [compute_extension_key(nibs), v]
    return get_node_type(node) == NODE_TYPE_EXTENSION and tuple(extract_key(node)) == tuple(nibs)


def b_hex_node(src, n):
    return [tuple(src.int(f"n{i}", 8, 0, 15) for i in range(n)), src.atom("v", 32)]


def h_hex_other(v):
    return get_node_type(b"") == NODE_TYPE_BLANK and get_node_type([b""] * 16 + [v]) == NODE_TYPE_BRANCH


def _kinds(node):
    """the classification given by the four is_*_node helpers, as a tuple of booleans (blank, leaf, extension, branch)"""
    return (bool(is_blank_node(node)), bool(is_leaf_node(node)), bool(is_extension_node(node)), bool(is_branch_node(node)))


def h_hex_helpers(nibs, v):
    """every node falls into exactly one class, and the is_*_node helpers agree with get_node_type"""
    leaf = [compute_leaf_key(nibs), v]
    ext = [compute_extension_key(nibs), v]
    branch = [b""] * 16 + [v]
    return all([_kinds(leaf) == (False, True, False, False), _kinds(ext) == (False, False, True, False),
                _kinds(branch) == (False, False, False, True), _kinds(b"") == (True, False, False, False)])


def h_branch_node_lens(left, right):
    """children that are not 32 bytes each: the encoder refuses, or whatever it produces parses back to the same parts"""
    try:
        node = encode_branch_node(left, right)
    except ValidationError:
        return True
    try:
        t, a, b = parse_node(node)
    except InvalidNode:
        return False
    return t == BRANCH_TYPE and a == left and b == right


def b_branch_node_lens(src, l, r):
    return [src.atom("l", l) if l else b"", src.atom("r", r) if r else b""]


def b_hex_other(src):
    return [src.atom("v", 5)]


def h_prefix_kernels(a, b):
    n = get_common_prefix_length(a, b)
    common, ra, rb = consume_common_prefix(a, b)
    ok = tuple(common) == tuple(a[:n]) and tuple(common) == tuple(b[:n]) and tuple(common) + tuple(ra) == tuple(a) and tuple(common) + tuple(rb) == tuple(b)
    if len(ra) > 0 and len(rb) > 0:
        ok = ok and ra[0] != rb[0]
    sw = key_starts_with(a, b)
    return ok and sw == (n == len(b))


def b_prefix_kernels(src, na, nb):
    return [tuple(src.int(f"a{i}", 8, 0, 15) for i in range(na)), tuple(src.int(f"b{i}", 8, 0, 15) for i in range(nb))]


# ---------------------------------------------------------------------------------------- C14 / C15
from eth_utils import to_int  # noqa: E402
from trie.smt import SparseMerkleProof, SparseMerkleTree, calc_root  # noqa: E402


def _walk_hashes(t, key_int, depth):
    """hashes of the nodes on key's path below the root, root-side first (read from the tree's db)"""
    out = []
    node_hash = t.root_hash
    target = 1 << (depth - 1)
    for _ in range(depth):
        node = t.db[node_hash]
        if key_int & target:
            node_hash = node[32:]
        else:
            node_hash = node[:32]
        out.append(node_hash)
        target >>= 1
    return tuple(out)


def h_smt(ks, default, ops, kinds, q):
    """ops: ((key, value), ...); kinds: tuple of bools (True = delete).  All keys/values/default/q symbolic."""
    t = SparseMerkleTree(key_size=ks, default=default)
    conds = []
    spec = default
    for (k, v), is_del in zip(ops, kinds):
        if is_del:
            upd = t.delete(k)
            x = default
        else:
            upd = t.set(k, v)
            x = v
        conds.append(tuple(upd) == _walk_hashes(t, to_int(k), 8 * ks))
        spec = x if k == q else spec
    val, br = t._get(q)
    conds.append(val == spec)
    conds.append(calc_root(q, val, br) == t.root_hash)
    conds.append(len(br) == 8 * ks)
    conds.append(t.exists(q) == (spec != b""))
    if spec != b"":
        conds.append(t.get(q) == spec)
        conds.append(tuple(t.branch(q)) == tuple(br))
    else:
        try:
            t.get(q)
            conds.append(False)
        except KeyError:
            pass
    other = SparseMerkleTree.from_db(t.db, t.root_hash, key_size=ks, default=default)
    v2, b2 = other._get(q)
    conds.append(v2 == val)
    conds.append(tuple(b2) == tuple(br))
    # the re-opened tree is a SparseMerkleTree with the same default: clearing a key through it reads as the default
    other.delete(q)
    conds.append(other._get(q)[0] == default)
    return all(conds)


def _val(src, name, shape):
    return b"" if shape == 0 else src.atom(name, shape)


def b_smt(src, ks, dshape, vshapes, kinds):
    default = _val(src, "default", dshape)
    ops = tuple((src.bv(f"k{i}", ks), _val(src, f"v{i}", s)) for i, s in enumerate(vshapes))
    return [ks, default, ops, tuple(kinds), src.bv("q", ks)]


def h_smt_clear(ks, default, ops):
    """writing and then clearing everything restores the initial root; two orders of writes to different keys agree"""
    t = SparseMerkleTree(key_size=ks, default=default)
    root0 = t.root_hash
    for k, v in ops:
        t.set(k, v)
    for k, v in ops:
        t.delete(k)
    conds = [t.root_hash == root0]
    if len(ops) == 2:
        (k1, v1), (k2, v2) = ops
        if k1 != k2:
            a = SparseMerkleTree(key_size=ks, default=default)
            a.set(k1, v1)
            a.set(k2, v2)
            b = SparseMerkleTree(key_size=ks, default=default)
            b.set(k2, v2)
            b.set(k1, v1)
            conds.append(a.root_hash == b.root_hash)
    return all(conds)


def b_smt_clear(src, ks, dshape, vshapes):
    default = _val(src, "default", dshape)
    return [ks, default, tuple((src.bv(f"k{i}", ks), _val(src, f"v{i}", s)) for i, s in enumerate(vshapes))]


def h_proof_sync(ks, default, pre, tracked, updates, kinds):
    """a SparseMerkleProof fed every update of the tree stays equal to the tree, never querying it again"""
    t = SparseMerkleTree(key_size=ks, default=default)
    for k, v in pre:
        t.set(k, v)
    val0, br0 = t._get(tracked)
    p = SparseMerkleProof(tracked, val0, br0)
    conds = [p.root_hash == t.root_hash]
    for (k, v), is_del in zip(updates, kinds):
        if is_del:
            upd = t.delete(k)
            x = default
        else:
            upd = t.set(k, v)
            x = v
        p.update(k, x, upd)
        tv, tb = t._get(tracked)
        conds.append(p.value == tv)
        conds.append(tuple(p.branch) == tuple(tb))
        conds.append(p.root_hash == t.root_hash)
        conds.append(p.key == tracked)
    return all(conds)


def b_proof_sync(src, ks, dshape, preshapes, vshapes, kinds):
    default = _val(src, "default", dshape)
    pre = tuple((src.bv(f"p{i}", ks), _val(src, f"pv{i}", s)) for i, s in enumerate(preshapes))
    ups = tuple((src.bv(f"k{i}", ks), _val(src, f"v{i}", s)) for i, s in enumerate(vshapes))
    return [ks, default, pre, src.bv("t", ks), ups, tuple(kinds)]


def h_update_alone(tracked, val, branch, k, v, upd):
    """SparseMerkleProof.update on its own (no tree, arbitrary branch / update hashes): the sibling at the first differing bit
    (MSB first) is replaced by the update's hash at that level, nothing else changes; an update of the tracked key replaces the value"""
    depth = len(branch)
    p = SparseMerkleProof(tracked, val, branch)
    p.update(k, v, upd)
    diff = to_int(tracked) ^ to_int(k)
    conds = []
    if diff == 0:
        conds.append(p.value == v)
        conds.append(tuple(p.branch) == tuple(branch))
        return all(conds)
    conds.append(p.value == val)
    newb = p.branch
    for i in range(depth):
        first_here = (diff >> (depth - 1 - i)) == 1            # bit i (MSB first) is the first differing one
        conds.append(newb[i] == (upd[i] if first_here else branch[i]))
    return all(conds)


def b_update_alone(src, ks):
    depth = 8 * ks
    branch = tuple(src.atom(f"b{i}", 32) for i in range(depth))
    upd = tuple(src.atom(f"u{i}", 32) for i in range(depth))
    return [src.bv("t", ks), src.atom("val", 2), branch, src.bv("k", ks), src.atom("v", 2), upd]


def h_proof_trunc(ks, default, tracked, k, v, m):
    """only the hashes down to the first differing bit are needed; a shorter list -> ValidationError, proof unchanged"""
    depth = 8 * ks
    t = SparseMerkleTree(key_size=ks, default=default)
    val0, br0 = t._get(tracked)
    p = SparseMerkleProof(tracked, val0, br0)
    upd = t.set(k, v)[:m]
    diff = to_int(tracked) ^ to_int(k)
    enough = diff == 0 or (diff >> (depth - m)) != 0
    try:
        p.update(k, v, upd)
    except ValidationError:
        return (not enough) and p.value == val0 and tuple(p.branch) == tuple(br0)
    tv, tb = t._get(tracked)
    return enough and p.value == tv and tuple(p.branch) == tuple(tb) and p.root_hash == t.root_hash


def b_proof_trunc(src, ks, dshape, vshape, m):
    return [ks, _val(src, "default", dshape), src.bv("t", ks), src.bv("k", ks), _val(src, "v", vshape), m]


# ---------------------------------------------------------------------------------------- C12 / C13
from trie.binary import BinaryTrie  # noqa: E402
from trie.exceptions import InvalidKeyError, NodeOverrideError  # noqa: E402


def _starts(full, prefix):
    return len(full) >= len(prefix) and full[:len(prefix)] == prefix


def _related(a, b):
    """one key is a proper prefix of the other"""
    if len(a) == len(b):
        return False
    if len(a) < len(b):
        return b[:len(a)] == a
    return a[:len(b)] == b


def h_bin_hist(ops, kinds, q):
    """ops: ((key, value), ...), kinds[i] in {0: set, 1: delete, 2: delete_subtrie}; q: lookup key.
    Map model with the NodeOverrideError rule; a raising call leaves root and contents unchanged; earlier roots stay readable."""
    db = {}
    t = BinaryTrie(db)
    n = len(ops)
    present = [False] * n           # slot j: key ops[j][0] currently stored with value ops[j][1]
    conds = []
    roots = []
    for i in range(n):
        k, v = ops[i]
        kind = kinds[i]
        before_root = t.root_hash
        before_q = t.get(q)
        raised = False
        try:
            if kind == 0:
                t.set(k, v)
            elif kind == 1:
                t.delete(k)
            else:
                t.delete_subtrie(k)
        except NodeOverrideError:
            raised = True
        stored_k = any([present[j] and ops[j][0] == k for j in range(i)])
        conflict = any([present[j] and _related(ops[j][0], k) for j in range(i)])
        if raised:
            conds.append(t.root_hash == before_root)
            conds.append(t.get(q) == before_q)
            if kind == 0:
                conds.append(conflict)                 # a set is refused only for a prefix conflict
            elif kind == 1:
                conds.append(not stored_k)              # deleting a stored key is never refused
            else:
                conds.append(not any([present[j] and _starts(ops[j][0], k) for j in range(i)]))
        else:
            if kind == 0:
                conds.append(not conflict)
                for j in range(i):
                    present[j] = present[j] and not (ops[j][0] == k)
                present[i] = True
            elif kind == 1:
                for j in range(i):
                    present[j] = present[j] and not (ops[j][0] == k)
            else:
                for j in range(i):
                    present[j] = present[j] and not _starts(ops[j][0], k)
        roots.append(t.root_hash)
    got = t.get(q)
    if got is None:
        conds.append(not any([present[j] and ops[j][0] == q for j in range(n)]))
        conds.append(not t.exists(q))
    else:
        conds.append(any([present[j] and ops[j][0] == q and ops[j][1] == got for j in range(n)]))
        conds.append(t.exists(q))
    conds.append((t.root_hash == BLANK_HASH) == (not any(present)))
    return all(conds)


def _key(src, name, n):
    return src.bv(name, n)


def b_bin_hist(src, klens, kinds, vlen, qlen, qfrom=None, kfix=None):
    """kfix[i] (optional): concrete suffix bytes appended to the symbolic part of key i (fewer trie shapes per obligation)"""
    def key(i, kl):
        fx = bytes(kfix[i]) if kfix and kfix[i] else b""
        return _key(src, f"k{i}", kl - len(fx)) + fx if kl > len(fx) else fx
    ops = tuple((key(i, kl), src.atom(f"v{i}", vlen) if kinds[i] == 0 else b"") for i, kl in enumerate(klens))
    q = _key(src, "q", qlen) if qfrom is None else ops[qfrom][0]        # a free query key, or the key of operation `qfrom`
    return [ops, tuple(kinds), q]


def h_bin_order(k1, v1, k2, v2):
    """two keys, both insertion orders, and insert+delete: same root as the direct construction"""
    if k1 == k2 or _related(k1, k2):
        return True
    a = BinaryTrie({})
    a.set(k1, v1)
    r1 = a.root_hash
    a.set(k2, v2)
    b = BinaryTrie({})
    b.set(k2, v2)
    b.set(k1, v1)
    conds = [a.root_hash == b.root_hash]
    a.delete(k2)
    conds.append(a.root_hash == r1)
    b.delete(k2)
    conds.append(b.root_hash == r1)
    a.delete(k1)
    conds.append(a.root_hash == BLANK_HASH)
    old = BinaryTrie(b.db, r1)
    conds.append(old.get(k1) == v1)
    return all(conds)


def b_bin_order(src, l1, l2):
    return [_key(src, "k1", l1), src.atom("v1", 3), _key(src, "k2", l2), src.atom("v2", 3)]


from trie.branches import check_if_branch_exist, get_branch, get_trie_nodes, get_witness_for_key_prefix, if_branch_valid  # noqa: E402


def _reachable_nodes(db, root):
    """own walker over the binary node encodings (type byte, 32-byte child hashes), independent of trie.utils.nodes"""
    out = []
    if root == BLANK_HASH:
        return out
    stack = [root]
    while stack:
        h = stack.pop()
        node = db[h]
        out.append(node)
        t = node[0]
        if t == 1:
            stack.append(node[33:65])
            stack.append(node[1:33])
        elif t == 0:
            stack.append(node[-32:])
    return out


def _same_multiset(xs, ys):
    if len(xs) != len(ys):
        return False
    return all([any([x == y for y in ys]) for x in xs]) and all([any([x == y for x in xs]) for y in ys])


def _build(keys, vals):
    """None when the keys collide or are prefix-related (such sets cannot all be stored), else (db, trie)"""
    n = len(keys)
    for i in range(n):
        for j in range(i):
            if keys[i] == keys[j] or _related(keys[i], keys[j]):
                return None
    db = {}
    t = BinaryTrie(db)
    for k, v in zip(keys, vals):
        t.set(k, v)
    return (db, t)


def h_branch(keys, vals, q):
    """get_branch(q) either refuses q (absent and prefix-related to a stored key) or yields nodes of the trie from which
    if_branch_valid confirms the trie's answer; the same branch never validates a wrong answer, nor does a truncated one"""
    built = _build(keys, vals)
    if built is None:
        return True
    db, t = built
    root = t.root_hash
    conds = []
    answer = t.get(q)
    stored_q = any([k == q for k in keys])
    conds.append((answer is not None) == stored_q)
    try:
        branch = get_branch(db, root, q)
    except InvalidKeyError:
        return all(conds + [not stored_q, any([_related(k, q) for k in keys])])
    conds.append(if_branch_valid(branch, root, q, answer))
    reach = _reachable_nodes(db, root)
    for node in branch:
        conds.append(any([node == x for x in reach]))
    try:
        ok_wrong = if_branch_valid(branch, root, q, b"\x99wrong")
    except (AssertionError, KeyError, InvalidNode):
        ok_wrong = False
    conds.append(not ok_wrong)
    if len(branch) >= 2 and answer is not None:
        for claim in (answer, None):        # the truncated branch neither proves the value nor "proves" absence of a stored key
            try:
                ok_trunc = if_branch_valid(branch[:-1], root, q, claim)
            except (AssertionError, KeyError, InvalidNode):
                ok_trunc = False
            conds.append(not ok_trunc)
    return all(conds)


def b_branch(src, klens, qlen):
    keys = tuple(_key(src, f"k{i}", kl) for i, kl in enumerate(klens))
    vals = tuple(src.atom(f"v{i}", 3) for i in range(len(klens)))
    return [keys, vals, _key(src, "q", qlen)]


def h_branch_other(keys, vals, q, q2):
    """a branch produced for another key q2 never validates an answer for q that the trie does not give"""
    built = _build(keys, vals)
    if built is None or q == q2:
        return True
    db, t = built
    root = t.root_hash
    try:
        other = get_branch(db, root, q2)
    except InvalidKeyError:
        return True
    if len(other) == 0:
        return True
    answer = t.get(q)
    for claimed in (vals[0], None):
        if claimed is None and answer is None:
            continue
        try:
            ok = if_branch_valid(other, root, q, claimed)
        except (AssertionError, KeyError, InvalidNode):
            ok = False
        if ok and not (answer is not None and claimed is not None and answer == claimed):
            return False
    return True


def b_branch_other(src, klens, qlen):
    keys = tuple(_key(src, f"k{i}", kl) for i, kl in enumerate(klens))
    vals = tuple(src.atom(f"v{i}", 3) for i in range(len(klens)))
    return [keys, vals, _key(src, "q", qlen), _key(src, "q2", qlen)]


def h_branch_foreign(keys, vals, q, v2, drop_first):
    """a branch taken from ANOTHER trie (same keys with another value, or with the first key missing), offered against the
    real root, never validates an answer the real trie does not give (every node is well formed, only not the real one)"""
    built = _build(keys, vals)
    if built is None:
        return True
    db, t = built
    root = t.root_hash
    answer = t.get(q)
    keys2 = keys[1:] if drop_first else keys
    other = _build(keys2, tuple(v2 for _ in keys2))
    if other is None:
        return True
    db2, t2 = other
    try:
        forged = get_branch(db2, t2.root_hash, q)
    except InvalidKeyError:
        return True
    if len(forged) == 0:
        return True
    claim = t2.get(q)
    same = (claim is None and answer is None) or (claim is not None and answer is not None and claim == answer)
    try:
        ok = if_branch_valid(forged, root, q, claim)
    except (AssertionError, KeyError, InvalidNode):
        ok = False
    return same or not ok


def b_branch_foreign(src, klens, qlen, drop_first):
    keys = tuple(_key(src, f"k{i}", kl) for i, kl in enumerate(klens))
    vals = tuple(src.atom(f"v{i}", 3) for i in range(len(klens)))
    return [keys, vals, _key(src, "q", qlen), src.atom("w", 3), drop_first]


def h_exist(keys, vals, p):
    built = _build(keys, vals)
    if built is None:
        return True
    db, t = built
    return check_if_branch_exist(db, t.root_hash, p) == any([_starts(k, p) for k in keys])


def b_exist(src, klens, plen):
    keys = tuple(_key(src, f"k{i}", kl) for i, kl in enumerate(klens))
    vals = tuple(src.atom(f"v{i}", 3) for i in range(len(klens)))
    return [keys, vals, _key(src, "p", plen) if plen else b""]


def h_nodes(keys, vals):
    built = _build(keys, vals)
    if built is None:
        return True
    db, t = built
    return _same_multiset(list(get_trie_nodes(db, t.root_hash)), _reachable_nodes(db, t.root_hash))


def b_nodes(src, klens, vlen=3):
    keys = tuple(_key(src, f"k{i}", kl) for i, kl in enumerate(klens))
    vals = tuple(src.atom(f"v{i}", vlen) for i in range(len(klens)))       # vlen=32: a value may coincide with the hash of a node in the db
    return [keys, vals]


def h_witness(keys, vals, p, suffix):
    """get_witness_for_key_prefix(p): only nodes of the trie, sufficient to answer get(k) for every k starting with p"""
    n = len(keys)
    for i in range(n):
        for j in range(i):
            if keys[i] == keys[j] or _related(keys[i], keys[j]):
                return True
    db = {}
    t = BinaryTrie(db)
    for k, v in zip(keys, vals):
        t.set(k, v)
    root = t.root_hash
    try:
        wit = get_witness_for_key_prefix(db, root, p)
    except InvalidKeyError:
        # refused as running past a leaf: p properly extends a stored key
        return any([_related(k, p) and len(k) < len(p) for k in keys])
    reach = _reachable_nodes(db, root)
    conds = [any([w == x for x in reach]) for w in wit]
    wdb = {}
    for w in wit:
        wdb[keccak_of(w)] = w
    k = p + suffix
    try:
        got = BinaryTrie(wdb, root).get(k)
        conds.append(got == t.get(k))
    except KeyError:
        conds.append(False)
    return all(conds)


def keccak_of(b):
    from eth_hash.auto import keccak
    return keccak(b)


def b_witness(src, klens, plen, slen):
    keys = tuple(_key(src, f"k{i}", kl) for i, kl in enumerate(klens))
    vals = tuple(src.atom(f"v{i}", 3) for i in range(len(klens)))
    return [keys, vals, _key(src, "p", plen) if plen else b"", _key(src, "s", slen) if slen else b""]
