"""Harness functions for Engine L.  Plain Python over the py-trie API: interpreted symbolically by pylift
(together with every py-trie function they call) and executed natively by CPython on replays / witnesses.
Each returns True when the property holds for its inputs (or a pair (holds, reachability-witness))."""
from trie.constants import BLANK_HASH, BRANCH_TYPE, KV_TYPE, LEAF_TYPE, NODE_TYPE_BLANK, NODE_TYPE_BRANCH, NODE_TYPE_EXTENSION, NODE_TYPE_LEAF
from trie.exceptions import InvalidNode, ValidationError
from trie.utils.binaries import decode_from_bin, decode_to_bin_keypath, encode_from_bin_keypath, encode_to_bin
from trie.utils.nibbles import (NIBBLES_LOOKUPS, REVERSE_NIBBLES_LOOKUP, add_nibbles_terminator, bytes_to_nibbles, decode_nibbles, encode_nibbles,
                                is_nibbles_terminated, nibbles_to_bytes, remove_nibbles_terminator)
from trie.utils.nodes import (compute_extension_key, compute_leaf_key, consume_common_prefix, encode_branch_node, encode_kv_node, encode_leaf_node,
                              extract_key, get_common_prefix_length, get_node_type, key_starts_with, parse_node)


# ---------------------------------------------------------------------------------------- C16
def yellow_paper_hp(nibs, t):
    """HP(x, t) of the Yellow Paper, Appendix C, written arithmetically"""
    f = 2 if t else 0
    if len(nibs) % 2:
        out = [16 * (f + 1) + nibs[0]]
        rest = nibs[1:]
    else:
        out = [16 * f]
        rest = nibs
    for i in range(0, len(rest), 2):
        out.append(16 * rest[i] + rest[i + 1])
    return bytes(out)


def h_hp(nibs, term):
    full = nibs + (16,) if term else nibs
    enc = encode_nibbles(full)
    dec = decode_nibbles(enc)
    return enc == yellow_paper_hp(nibs, term) and tuple(dec) == tuple(full) and bool(is_nibbles_terminated(dec)) == term


def b_hp(src, n, term):
    return [tuple(src.int(f"n{i}", 8, 0, 15) for i in range(n)), term]


def h_terminator(nibs):
    a = add_nibbles_terminator(nibs)
    return tuple(a) == tuple(nibs) + (16,) and tuple(remove_nibbles_terminator(a)) == tuple(nibs) and tuple(add_nibbles_terminator(a)) == tuple(a) \
        and tuple(remove_nibbles_terminator(nibs)) == tuple(nibs)


def b_terminator(src, n):
    return [tuple(src.int(f"n{i}", 8, 0, 15) for i in range(n))]


def h_bytes_nibbles(b):
    nibs = bytes_to_nibbles(b)
    conds = [len(nibs) == 2 * len(b), nibbles_to_bytes(nibs) == b]
    for i in range(len(b)):
        conds += [nibs[2 * i] * 16 + nibs[2 * i + 1] == b[i], nibs[2 * i] < 16, nibs[2 * i + 1] < 16]
    return all(conds)


def b_bytes_nibbles(src, n):
    return [src.bv("b", n) if n else b""]


def h_nibbles_bytes(nibs):
    return tuple(bytes_to_nibbles(nibbles_to_bytes(nibs))) == tuple(nibs)


def b_nibbles_bytes(src, n):
    return [tuple(src.int(f"n{i}", 8, 0, 15) for i in range(n))]


def h_tables(b, hi, lo):
    return NIBBLES_LOOKUPS[b] == (b // 16, b % 16) and REVERSE_NIBBLES_LOOKUP[(hi, lo)] == hi * 16 + lo


def b_tables(src):
    return [src.int("b", 8), src.int("hi", 8, 0, 15), src.int("lo", 8, 0, 15)]


def h_bin(b):
    bits = encode_to_bin(b)
    return all([len(bits) == 8 * len(b), decode_from_bin(bits) == b] + [x < 2 for x in bits])


def b_bin(src, n):
    return [src.bv("b", n) if n else b""]


def h_bits_roundtrip(bits):
    return encode_to_bin(decode_from_bin(bits)) == bits


def bits_of(src, n, name="x"):
    return src.mk_bytes([src.int(f"{name}{i}", 8, 0, 1) for i in range(n)]) if n else b""


def b_bits_roundtrip(src, n):
    return [bits_of(src, n)]


def h_keypath(bits):
    enc = encode_from_bin_keypath(bits)
    return decode_to_bin_keypath(enc) == bits and len(enc) == (len(bits) + 4 + 7) // 8


def b_keypath(src, n):
    return [bits_of(src, n)]


def h_kv_node(bits, h):
    node = encode_kv_node(bits, h)
    t, kp, child = parse_node(node)
    return t == KV_TYPE and kp == bits and child == h and node[0] == 0


def b_kv_node(src, n):
    return [bits_of(src, n), src.atom("h", 32)]


def h_branch_node(left, right):
    node = encode_branch_node(left, right)
    t, a, b = parse_node(node)
    return t == BRANCH_TYPE and a == left and b == right and len(node) == 65


def b_branch_node(src):
    return [src.atom("l", 32), src.atom("r", 32)]


def h_leaf_node(v):
    node = encode_leaf_node(v)
    t, a, b = parse_node(node)
    return t == LEAF_TYPE and a is None and b == v


def b_leaf_node(src, n):
    return [src.atom("v", n)]


def h_parse_rejects(node):
    """binary nodes that are empty, carry an unknown type byte or have an impossible length -> InvalidNode
    (any other exception escaping parse_node for such a node is a violation as well)"""
    bad = len(node) == 0
    if not bad:
        t = node[0]
        bad = t > 2 or (t == 1 and len(node) != 65) or (t == 0 and len(node) <= 33) or (t == 2 and len(node) == 1)
    if not bad:
        return True          # well-formed nodes are the subject of the round-trip obligations; a kv node whose packed key
        #                      path is itself malformed is not among the rejections the property lists
    try:
        parse_node(node)
    except InvalidNode:
        return True
    return False


def b_parse_rejects(src, n):
    if n == 0:
        return [b""]
    rest = src.bv("rest", n - 1) if n > 1 else b""
    return [src.mk_bytes([src.int("t", 8)]) + rest]


def h_hex_leaf(nibs, v):
    node = [compute_leaf_key(nibs), v]
    return get_node_type(node) == NODE_TYPE_LEAF and tuple(extract_key(node)) == tuple(nibs)


def h_hex_ext(nibs, v):
    node = [compute_extension_key(nibs), v]
    return get_node_type(node) == NODE_TYPE_EXTENSION and tuple(extract_key(node)) == tuple(nibs)


def b_hex_node(src, n):
    return [tuple(src.int(f"n{i}", 8, 0, 15) for i in range(n)), src.atom("v", 32)]


def h_hex_other(v):
    return get_node_type(b"") == NODE_TYPE_BLANK and get_node_type([b""] * 16 + [v]) == NODE_TYPE_BRANCH


def b_hex_other(src):
    return [src.atom("v", 5)]


def h_prefix_kernels(a, b):
    n = get_common_prefix_length(a, b)
    common, ra, rb = consume_common_prefix(a, b)
    ok = tuple(common) == tuple(a[:n]) and tuple(common) == tuple(b[:n]) and tuple(common) + tuple(ra) == tuple(a) and tuple(common) + tuple(rb) == tuple(b)
    if len(ra) > 0 and len(rb) > 0:
        ok = ok and ra[0] != rb[0]
    sw = key_starts_with(a, b)
    return ok and sw == (n == len(b))


def b_prefix_kernels(src, na, nb):
    return [tuple(src.int(f"a{i}", 8, 0, 15) for i in range(na)), tuple(src.int(f"b{i}", 8, 0, 15) for i in range(nb))]


# ---------------------------------------------------------------------------------------- C14 / C15
from eth_utils import to_int  # noqa: E402
from trie.smt import SparseMerkleProof, SparseMerkleTree, calc_root  # noqa: E402


def _walk_hashes(t, key_int, depth):
    """hashes of the nodes on key's path below the root, root-side first (read from the tree's db)"""
    out = []
    node_hash = t.root_hash
    target = 1 << (depth - 1)
    for _ in range(depth):
        node = t.db[node_hash]
        if key_int & target:
            node_hash = node[32:]
        else:
            node_hash = node[:32]
        out.append(node_hash)
        target >>= 1
    return tuple(out)


def h_smt(ks, default, ops, kinds, q):
    """ops: ((key, value), ...); kinds: tuple of bools (True = delete).  All keys/values/default/q symbolic."""
    t = SparseMerkleTree(key_size=ks, default=default)
    conds = []
    spec = default
    for (k, v), is_del in zip(ops, kinds):
        if is_del:
            upd = t.delete(k)
            x = default
        else:
            upd = t.set(k, v)
            x = v
        conds.append(tuple(upd) == _walk_hashes(t, to_int(k), 8 * ks))
        spec = x if k == q else spec
    val, br = t._get(q)
    conds.append(val == spec)
    conds.append(calc_root(q, val, br) == t.root_hash)
    conds.append(len(br) == 8 * ks)
    conds.append(t.exists(q) == (spec != b""))
    if spec != b"":
        conds.append(t.get(q) == spec)
        conds.append(tuple(t.branch(q)) == tuple(br))
    else:
        try:
            t.get(q)
            conds.append(False)
        except KeyError:
            pass
    other = SparseMerkleTree.from_db(t.db, t.root_hash, key_size=ks, default=default)
    v2, b2 = other._get(q)
    conds.append(v2 == val)
    conds.append(tuple(b2) == tuple(br))
    return all(conds)


def _val(src, name, shape):
    return b"" if shape == 0 else src.atom(name, shape)


def b_smt(src, ks, dshape, vshapes, kinds):
    default = _val(src, "default", dshape)
    ops = tuple((src.bv(f"k{i}", ks), _val(src, f"v{i}", s)) for i, s in enumerate(vshapes))
    return [ks, default, ops, tuple(kinds), src.bv("q", ks)]


def h_smt_clear(ks, default, ops):
    """writing and then clearing everything restores the initial root; two orders of writes to different keys agree"""
    t = SparseMerkleTree(key_size=ks, default=default)
    root0 = t.root_hash
    for k, v in ops:
        t.set(k, v)
    for k, v in ops:
        t.delete(k)
    conds = [t.root_hash == root0]
    if len(ops) == 2:
        (k1, v1), (k2, v2) = ops
        if k1 != k2:
            a = SparseMerkleTree(key_size=ks, default=default)
            a.set(k1, v1)
            a.set(k2, v2)
            b = SparseMerkleTree(key_size=ks, default=default)
            b.set(k2, v2)
            b.set(k1, v1)
            conds.append(a.root_hash == b.root_hash)
    return all(conds)


def b_smt_clear(src, ks, dshape, vshapes):
    default = _val(src, "default", dshape)
    return [ks, default, tuple((src.bv(f"k{i}", ks), _val(src, f"v{i}", s)) for i, s in enumerate(vshapes))]


def h_proof_sync(ks, default, pre, tracked, updates, kinds):
    """a SparseMerkleProof fed every update of the tree stays equal to the tree, never querying it again"""
    t = SparseMerkleTree(key_size=ks, default=default)
    for k, v in pre:
        t.set(k, v)
    val0, br0 = t._get(tracked)
    p = SparseMerkleProof(tracked, val0, br0)
    conds = [p.root_hash == t.root_hash]
    for (k, v), is_del in zip(updates, kinds):
        if is_del:
            upd = t.delete(k)
            x = default
        else:
            upd = t.set(k, v)
            x = v
        p.update(k, x, upd)
        tv, tb = t._get(tracked)
        conds.append(p.value == tv)
        conds.append(tuple(p.branch) == tuple(tb))
        conds.append(p.root_hash == t.root_hash)
        conds.append(p.key == tracked)
    return all(conds)


def b_proof_sync(src, ks, dshape, preshapes, vshapes, kinds):
    default = _val(src, "default", dshape)
    pre = tuple((src.bv(f"p{i}", ks), _val(src, f"pv{i}", s)) for i, s in enumerate(preshapes))
    ups = tuple((src.bv(f"k{i}", ks), _val(src, f"v{i}", s)) for i, s in enumerate(vshapes))
    return [ks, default, pre, src.bv("t", ks), ups, tuple(kinds)]


def h_proof_trunc(ks, default, tracked, k, v, m):
    """only the hashes down to the first differing bit are needed; a shorter list -> ValidationError, proof unchanged"""
    depth = 8 * ks
    t = SparseMerkleTree(key_size=ks, default=default)
    val0, br0 = t._get(tracked)
    p = SparseMerkleProof(tracked, val0, br0)
    upd = t.set(k, v)[:m]
    diff = to_int(tracked) ^ to_int(k)
    enough = diff == 0 or (diff >> (depth - m)) != 0
    try:
        p.update(k, v, upd)
    except ValidationError:
        return (not enough) and p.value == val0 and tuple(p.branch) == tuple(br0)
    tv, tb = t._get(tracked)
    return enough and p.value == tv and tuple(p.branch) == tuple(tb) and p.root_hash == t.root_hash


def b_proof_trunc(src, ks, dshape, vshape, m):
    return [ks, _val(src, "default", dshape), src.bv("t", ks), src.bv("k", ks), _val(src, "v", vshape), m]
