"""C14 - SparseMerkleTree is a fixed-depth map whose root and branches always verify.  (Engine L)"""
import itertools
import sys

from vf.pylift import lrun

PROPERTY = "C14"
H = "vf.pylift.harnesses:"
ASSUMPTIONS = [
    "all key bits (every operation's key and the query key) are z3 bit-vectors: one query covers all keys, all orderings and coincidences of keys; values and the default are atoms of an uninterpreted sort (or the concrete blank), their length classes {0, 2, 33} and the operation kinds {set, delete} are enumerated",
    "keccak = injective uninterpreted functions per argument shape (no collisions among the pre-images of a run); a value of exactly 64 bytes (indistinguishable from an inner node) is outside the claim",
    "Merkle-root clause: the two solver-checked premises 'for all q: get(q) = last write or default' and 'calc_root(q, value(q), branch(q)) = root_hash' imply, by induction on depth over hash-addressed look-ups, that root_hash is the Merkle root of the full tree with leaves keccak(value or default); that induction is a paper step, not discharged by the solver",
    "the db is the tree's own dict; from_db is checked over the same dict and root",
]
BOUNDS = {
    "quick": "key_size 1: histories of 1 and 2 operations and two 3-operation histories set;set;delete and set;set;set (all kind combinations, value/default length classes {blank, 2 bytes, 33 bytes}); key_size 2: 1 operation; clear-restores-root and order independence for 1-2 writes (key_size 1)",
    "thorough": "key_size 1: <= 3 operations; key_size 2: <= 2 operations (key_size 4 was tried: z3 does not answer a 1-operation history within 15 min, so it is not run)",
}
OUTSIDE = "key sizes 3..32 (same loop bodies, larger unrolling), longer histories, 64-byte values, databases shared with other users"


def obligations(tier):
    obs = []

    def add(name, fn, builder, t=900, **params):
        obs.append({"name": name, "harness": H + fn, "builder": H + builder, "params": params, "timeout_s": t, "query_timeout_ms": 300000})
    main = "get/exists/branch/calc_root/returned hashes/from_db after a history"

    def hist(ks, n, dshapes, vset):
        for d in dshapes:
            for kinds in itertools.product((False, True), repeat=n):
                choices = [vset if not kd else (0,) for kd in kinds]
                for vs in itertools.product(*choices):
                    add(main, "h_smt", "b_smt", ks=ks, dshape=d, vshapes=list(vs), kinds=list(kinds), t=3000)
    if tier == "quick":
        hist(1, 1, (0, 2), (0, 2, 33))
        hist(1, 2, (0, 2), (0, 2))
        hist(2, 1, (0, 2), (2,))
        # one targeted 3-operation history: two writes (the solver may make keys and values coincide) and a delete
        add(main, "h_smt", "b_smt", ks=1, dshape=0, vshapes=[2, 2, 0], kinds=[False, False, True], t=3000)
        add(main, "h_smt", "b_smt", ks=1, dshape=0, vshapes=[2, 2, 2], kinds=[False, False, False], t=3000)
        for d in (0, 2):
            for vs in ([2], [2, 33], [0, 2]):
                add("clearing restores the initial root; write order does not matter", "h_smt_clear", "b_smt_clear", ks=1, dshape=d, vshapes=vs)
    else:
        hist(1, 1, (0, 2, 33), (0, 2, 33))
        hist(1, 2, (0, 2), (0, 2, 33))
        hist(1, 3, (0, 2), (0, 2))
        hist(2, 1, (0, 2), (0, 2, 33))
        hist(2, 2, (0, 2), (2,))
        for ks, sets in ((1, ([2], [2, 33], [0, 2], [2, 2])), (2, ([2],))):
            for d in (0, 2):
                for vs in sets:
                    add("clearing restores the initial root; write order does not matter", "h_smt_clear", "b_smt_clear", ks=ks, dshape=d, vshapes=vs, t=3000)
    return obs


def run(tier):
    return lrun.run_l(sys.modules[__name__], tier)
