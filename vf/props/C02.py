"""C02 - HexaryTrie root hash is the canonical Ethereum MPT root of its contents.  (Engine X)

Step harness with postcondition root_hash == Yellow-Paper root (independent oracle: own HP, own RLP,
c(J,i) recursion, embedding rule < 32, root always hashed) of the updated contents, from the canonical
state of every contents set of the family, value pool targeted at RLP lengths 31/32/33.  Order /
overwrite / delete / batching / pruning independence follow because the reference is a function of the
contents only and every step is checked from every canonical state.
Both tiers add steps whose value *content* is a symbolic byte string of length 1, 29 or 33 flowing through the real
insertion code and pyrlp (keccak replaced by an injective interning function on both sides): 6 jobs in quick, 84 in thorough.
"""
import sys

from vf import common, xengine
from vf.props import hexstep

PROPERTY = "C02"
FUNCTIONS = ["trie.hexary.HexaryTrie.set/_set*/delete/_delete*/_normalize_branch_node/_persist_node/_node_to_db_mapping/_create_node_to_db_mapping/_set_root_node/_set_raw_node/squash_changes",
             "trie.utils.nibbles.encode_nibbles/decode_nibbles", "trie.utils.nodes.compute_leaf_key/compute_extension_key/extract_key/get_node_type/consume_common_prefix"]
ASSUMPTIONS = [
    "oracle = vf/oracle/mpt.py (validated on the ethereum/tests vectors 'dogs' and 'foo' at import of this module)",
    "stored keys/values come from finite pools, chosen by symbolic indices and exhausted by the path search; induction over single steps from canonical states (hexcommon docstring)",
    "real keccak / pyrlp on concrete bytes; thorough symbolic-content steps use an injective interning stub for keccak on both sides (root equality <=> structural equality)",
]
BOUNDS = {
    "quick": "contents sets: all <=2-subsets of the 7-key pool x {1-byte, 33-byte} + 9 special 3/4-key sets (135 sets); ops {set,[]=,delete,del} x 7 keys x 7 values (b'', 0x01, 0x80, 33B 'A', 33B 'B', 29B, 4B); configs alternate over (prune F/T) x (direct / one-op batch); + 6 symbolic-value-content steps",
    "thorough": "all <=3-subsets of the 10-key pool x 3 value classes; 12-value pool incl. 27/28/29/30/60-byte values; all 4 configs; + symbolic value content of length 1, 29 and 33 from 14 contents sets x prune {F,T}",
}
OUTSIDE = "values longer than 60 bytes, keys outside the pools, more than 4 live keys"
NONTRIVIAL_RULE = "the operation changed the contents"

assert __import__("vf.oracle.mpt", fromlist=["x"]).root_of({b"do": b"verb", b"dog": b"puppy", b"doge": b"coin", b"horse": b"stallion"}).hex() == \
    "5991bb8c6514148a29db676a14ac506cd2cd5775ace63c30a4fe457715e9ac84"
assert __import__("vf.oracle.mpt", fromlist=["x"]).root_of({b"foo": b"bar", b"food": b"bass"}).hex() == \
    "17beaa1648bafa633cda809c90c04af50fc8aed3cb40d16efbddee6fdf63c4c3"


def jobs(tier):
    seed = common.seed()
    configs = [(False, "direct"), (True, "direct"), (False, "batch"), (True, "batch")]
    sym = hexstep.symval_jobs(tier, ["root"], seed, [False, True])
    if tier == "quick":
        return hexstep.step_jobs(tier, ["root"], "K7", "V7", seed, configs, lambda mi, ci: mi % 4 == ci or (mi + 2) % 4 == ci) + sym[3::19]
    return hexstep.step_jobs(tier, ["root"], "K10", "V12", seed, configs, lambda mi, ci: ci % 2 == mi % 2) + sym


def run(tier):
    return xengine.run_x(sys.modules[__name__], tier)
