"""One-step harness for HexaryTrie: from the canonical state of every contents set M of a family, apply
one operation chosen by symbolic indices (kind, key index, value index) and compare the resulting state
with the canonical state of the updated contents.  Shared by C01, C02, C04, C06 (each selects its own
postconditions through cfg["checks"]).

cfg: {"mi": model index in family, "tier": .., "kpool": "K7"|"K10", "vpool": "V4"|.., "prune": bool,
      "mode": "direct"|"batch", "checks": [...], "seed": int}
"""
from typing import List  # noqa: F401

from vf import stubs
from vf.oracle import mpt
from vf.props import hexcommon as hc
from vf.xutil import concrete, notrace, pick

stubs.warm()

from trie import HexaryTrie  # noqa: E402

CFG: dict = {}
KEYS: list = []
VALS: list = []
MODEL: dict = {}
EXP: dict = {}
EXTRA_Q: list = []
PRE = None
COUNTERS = {"nontrivial": 0, "paths": 0}
SAMPLES: list = []
LAST_REASON = ""
FAMILY_CACHE: dict = {}


def family_for(cfg):
    key = (cfg["tier"], cfg["kpool"], cfg.get("seed", 0))
    if key not in FAMILY_CACHE:
        FAMILY_CACHE[key] = hc.family(cfg["tier"], hc.key_pool(cfg["kpool"], cfg.get("seed", 0)))
    return FAMILY_CACHE[key]


def configure(cfg):
    global CFG, KEYS, VALS, MODEL, EXP, EXTRA_Q
    CFG = dict(cfg)
    KEYS = hc.key_pool(cfg["kpool"], cfg.get("seed", 0))
    VALS = hc.value_pool(cfg["vpool"])
    MODEL = dict(family_for(cfg)[cfg["mi"]])
    global PRE
    PRE = hc.canonical_state(MODEL)
    EXP = {}
    for ki, k in enumerate(KEYS):
        for vi, v in enumerate(VALS):
            m2 = dict(MODEL)
            if v == b"":
                m2.pop(k, None)
            else:
                m2[k] = v
            EXP[(ki, vi)] = (m2,) + hc.canonical_state(m2)
    # lookup keys beyond the pool: one-nibble-off, extensions, a foreign key
    qs = set(KEYS) | set(MODEL)
    for k in KEYS:
        qs.add(k + b"\x00")
        if k:
            qs.add(k[:-1])
            qs.add(k[:-1] + bytes([k[-1] ^ 0x01]))
            qs.add(k[:-1] + bytes([k[-1] ^ 0x10]))
    qs.add(b"\xff")
    EXTRA_Q = sorted(qs)
    COUNTERS["nontrivial"] = 0
    COUNTERS["paths"] = 0
    del SAMPLES[:]
    stubs.reset_caches()


def _fail(msg):
    global LAST_REASON
    LAST_REASON = msg
    return False


def _apply(t, kind, key, val):
    if kind == 0:
        t.set(key, val)
    elif kind == 1:
        t[key] = val
    elif kind == 2:
        t.delete(key)
    else:
        del t[key]


def check_state(t, db, m2, root2, db2, rc2, checks, prune, old=None):
    """compare an implementation state with the canonical state of m2; returns None or a reason"""
    if "root" in checks:
        if t.root_hash != root2:
            return f"root hash {t.root_hash.hex()[:12]} differs from the Yellow Paper root {root2.hex()[:12]} of the contents"
    if "map" in checks:
        for q in EXTRA_Q:
            exp = m2.get(q, b"")
            try:
                got = t.get(q)
                got2 = t[q]
                ex = t.exists(q)
                inn = q in t
            except Exception as e:
                return f"lookup of {q.hex()} raised {type(e).__name__}: {e}"
            if got != exp or got2 != exp:
                return f"get({q.hex()}) returned {got!r}, contents say {exp!r}"
            if ex != (exp != b"") or inn != ex:
                return f"exists/in({q.hex()}) = {ex}/{inn}, contents say {exp != b''}"
    if "reach" in checks:
        try:
            hc.reachable(db, t.root_hash)
        except KeyError as e:
            return f"node {e.args[0].hex()[:12]} referenced from the root is missing from the database"
    if "exact" in checks and prune:
        if dict(db) != db2:
            extra = [k.hex()[:12] for k in db if k not in db2]
            missing = [k.hex()[:12] for k in db2 if k not in db]
            return f"pruning db is not exactly the live node set: leftover={extra} missing={missing}"
        rc = hc.nz(t.ref_count)
        if rc != rc2:
            diff = {k.hex()[:12]: (rc.get(k), rc2.get(k)) for k in set(rc) | set(rc2) if rc.get(k) != rc2.get(k)}
            return f"reference counts differ from the true counts (got, true): {diff}"
        if hc.nz(t.regenerate_ref_count()) != rc2:
            return "regenerate_ref_count differs from the true counts"
    if "history" in checks and not prune and old is not None:
        old_db, old_root, old_model = old
        for k, v in old_db.items():
            if k not in db or db[k] != v:
                return f"database entry {k.hex()[:12]} was removed or altered by the operation"
        for k, v in db.items():
            if k not in old_db and mpt.keccak(v) != k:
                return f"new database entry {k.hex()[:12]} is not keyed by the keccak of its value"
        snap = HexaryTrie(db, old_root)
        for q in EXTRA_Q:
            if snap.get(q) != old_model.get(q, b""):
                return f"old root no longer reads its contents at {q.hex()}"
        with t.at_root(old_root) as view:
            for q in KEYS:
                if view.get(q) != old_model.get(q, b""):
                    return f"at_root(old root) no longer reads its contents at {q.hex()}"
    return None


def _body(kind, ki, vi):
    # The three indices are the only symbolic inputs; the pool look-ups would realise them anyway, so
    # they are realised up front and the (now concrete) step runs natively: the solver's role in this
    # harness is to exhaust the choice space, path by path, and to certify that exhaustion.
    kind, ki, vi = pick(kind, 4), pick(ki, len(KEYS)), pick(vi, len(VALS))
    with notrace():
        return _concrete_body(kind, ki, vi)


def _concrete_body(kind, ki, vi):
    stubs.reset_caches()
    prune = CFG["prune"]
    checks = CFG["checks"]
    t, db = hc.trie_from_state(PRE, prune)
    old = (dict(db), t.root_hash, MODEL)
    key, val = KEYS[ki], VALS[vi]
    m2, root2, db2, rc2 = EXP[(ki, vi)]
    try:
        if CFG["mode"] == "batch":
            with t.squash_changes() as b:
                _apply(b, kind, key, val)
        else:
            _apply(t, kind, key, val)
    except Exception as e:
        return _fail(f"operation raised {type(e).__name__}: {e}")
    r = check_state(t, db, m2, root2, db2, rc2, checks, prune, old)
    if r is not None:
        return _fail(r)
    COUNTERS["paths"] += 1
    if m2 != MODEL:
        COUNTERS["nontrivial"] += 1
        if len(SAMPLES) < 2:
            SAMPLES.append({"pre": {k.hex(): len(v) for k, v in MODEL.items()}, "op": [kind, ki, vi], "key": KEYS[ki].hex()})
    return True


def _pre(kind, ki, vi):
    if not (0 <= kind <= 3 and 0 <= ki < len(KEYS) and 0 <= vi < len(VALS)):
        return False
    if kind >= 2 and vi != 0:
        return False
    return True


def h_step(kind: int, ki: int, vi: int) -> bool:
    """
    pre: _pre(kind, ki, vi)
    post: _
    """
    return _body(kind, ki, vi)


def r_step(kind: int, ki: int, vi: int) -> bool:
    """
    reachability twin: some operation really changes the contents (and passes all checks)
    pre: _pre(kind, ki, vi)
    post: _
    """
    ok = _body(kind, ki, vi)
    m2 = EXP[(ki, vi)][0]
    if ok and m2 != MODEL and kind == 0:
        return False
    return ok


WARM = {
    "h_step": lambda cfg: [(0, 1, 1), (2, 2, 0)],
    "r_step": lambda cfg: [(2, 0, 0)],
}


def step_jobs(tier, checks, kpool, vpool, seed, configs, select=None, pct=900):
    """one job per (contents set of the family, (prune, mode) config); `select(mi, ci)` thins the grid"""
    base = {"tier": tier, "kpool": kpool, "vpool": vpool, "seed": seed, "checks": checks}
    out = []
    nfam = len(family_for(base))
    for mi in range(nfam):
        for ci, (prune, mode) in enumerate(configs):
            if select is not None and not select(mi, ci):
                continue
            out.append({"module": "vf.props.hexstep", "fn": "h_step", "cfg": dict(base, mi=mi, prune=prune, mode=mode), "pct": pct, "ppt": 30})
    out.append({"module": "vf.props.hexstep", "fn": "r_step", "cfg": dict(base, mi=min(3, nfam - 1), prune=configs[0][0], mode=configs[0][1]),
                "pct": 300, "ppt": 30, "kind": "reach"})
    return out


# ---------------------------------------------------------------------------------------------
# symbolic value CONTENT (thorough tiers of C02 / C06): the value of one set() is a symbolic byte string of a
# fixed length that flows through the real insertion code and real pyrlp; keccak is replaced on both sides
# (implementation and oracle) by an injective interning function, so root equality <=> structural equality.
def h_symval(ki: int, v: bytes) -> bool:
    """
    pre: 0 <= ki < len(KEYS) and len(v) == CFG["vlen"]
    post: _
    """
    ki = pick(ki, len(KEYS))
    stubs.reset_caches()
    mh = stubs.install_model_hash()
    try:
        prune = CFG["prune"]
        with notrace():
            state = hc.canonical_state(MODEL)            # concrete, under the model hash
            t, db = hc.trie_from_state(state, prune)
        key = KEYS[ki]
        try:
            t.set(key, v)
        except Exception as e:
            return _fail(f"set raised {type(e).__name__}: {e}")
        m2 = dict(MODEL)
        m2[key] = v
        root2 = mpt.root_of(m2)
        if t.root_hash != root2:
            return _fail("root hash differs from the Yellow Paper root for a symbolic value content")
        if t.get(key) != v:
            return _fail("get after set of a symbolic value returned something else")
        if t.exists(key) is not True or (key in t) is not True:
            return _fail("exists / in deny a key that was just stored with a non-empty (symbolic) value")
        if prune and "exact" in CFG["checks"]:
            db2 = mpt.db_of(m2)
            if set(db) != set(db2):
                return _fail("pruning db is not exactly the live node set (symbolic value content)")
        COUNTERS["paths"] += 1
        COUNTERS["nontrivial"] += 1
        return True
    finally:
        stubs.uninstall_model_hash()


WARM["h_symval"] = lambda cfg: [(1, b"\x7f" * cfg["vlen"]), (2, b"\x80" * cfg["vlen"]), (0, hc.LONG_A[:cfg["vlen"]])]


def symval_jobs(tier, checks, seed, prunes):
    base = {"tier": "quick", "kpool": "K7", "vpool": "V4", "seed": seed, "checks": checks, "mode": "direct"}
    fam = family_for(base)
    idx = [i for i, m in enumerate(fam) if len(m) >= 2][::9]
    out = []
    for mi in idx:
        for prune in prunes:
            for vlen in (1, 29, 32, 33):
                out.append({"module": "vf.props.hexstep", "fn": "h_symval", "cfg": dict(base, mi=mi, prune=prune, vlen=vlen), "pct": 2400, "ppt": 120})
    return out
