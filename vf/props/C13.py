"""C13 - Binary-trie branches and witnesses are sufficient, exact and unforgeable.  (Engine L)"""
import itertools
import sys

from vf.pylift import lrun

PROPERTY = "C13"
H = "vf.pylift.harnesses:"
ASSUMPTIONS = [
    "stored keys, the queried key, the queried prefix and the key suffix below the prefix are z3 bit-vectors (lengths enumerated over {1,2} bytes, prefixes 0..2 bytes); tries are built by the interpreted BinaryTrie.set from 1-2 (3) symbolic keys that are neither equal nor prefix-related",
    "reachable node set: an independent walker over the raw encodings (type byte, child hashes at fixed offsets) written in the harness",
    "corruptions of a branch: the correct branch offered for a wrong value, the branch with its last node removed, a branch produced for another (symbolic) key, a well-formed branch taken from another trie (same keys with another value, or one key removed) offered against the real root; 'never validates' includes raising",
    "keccak = injective, well-founded uninterpreted functions",
]
BOUNDS = {
    "quick": "tries of 1 and 2 keys over key lengths {1,2}; query keys of length 1 and 2; prefixes of length 0, 1, 2; witness: prefix 1 byte + suffix 0/1 byte",
    "thorough": "additionally tries of 3 one-byte keys (get_branch with a 1-byte query, prefix existence for 1-byte prefixes, node sets), witnesses for key lengths (1,2), branch-for-another-key with key lengths (1,2)",
}
OUTSIDE = "keys longer than 2 bytes, more than 3 stored keys, arbitrary bit-level alterations inside a node"


def obligations(tier):
    obs = []

    def add(name, fn, builder, t=3000, **params):
        obs.append({"name": name, "harness": H + fn, "builder": H + builder, "params": params, "timeout_s": min(t, 2400), "rank": True,
                    "query_timeout_ms": 300000 if tier == "quick" else 900000})
    sets = [[1], [2], [1, 1], [1, 2], [2, 2]]
    if tier != "quick":
        sets.append([1, 1, 1])
    for klens in sets:
        three = len(klens) == 3
        for qlen in (1,) if three else (1, 2):
            add("get_branch refuses or yields a validating branch; wrong answer / truncated branch never validate", "h_branch", "b_branch", klens=klens, qlen=qlen, t=7200 if three else 3000)
        for plen in (1,) if three else (0, 1, 2):
            add("check_if_branch_exist(p) iff some stored key starts with p", "h_exist", "b_exist", klens=klens, plen=plen)
        add("get_trie_nodes == nodes reachable from the root", "h_nodes", "b_nodes", klens=klens)
        if klens in ([1], [1, 1]):
            add("get_trie_nodes == nodes reachable from the root (32-byte values, which may equal a node hash)", "h_nodes", "b_nodes", klens=klens, vlen=32)
    for klens in ([1, 1], [2, 2]) if tier == "quick" else ([1, 1], [2, 2], [1, 2]):
        for plen, slen in ((1, 0), (1, 1), (0, 1), (2, 0)):
            add("witness for a prefix: only trie nodes, sufficient for every key below the prefix", "h_witness", "b_witness", klens=klens, plen=plen, slen=slen)
    add("a branch for another key never validates an answer the trie does not give", "h_branch_other", "b_branch_other", klens=[1, 1], qlen=1)
    for klens in ([1], [1, 1], [2, 2]):
        for drop in (False, True):
            if drop and len(klens) < 2:
                continue
            add("a branch forged from another trie (other value / key removed) never validates against the real root", "h_branch_foreign", "b_branch_foreign",
                klens=klens, qlen=klens[0], drop_first=drop)
    if tier != "quick":
        add("a branch for another key never validates an answer the trie does not give", "h_branch_other", "b_branch_other", klens=[1, 2], qlen=1, t=7200)
    return obs


def run(tier):
    return lrun.run_l(sys.modules[__name__], tier)
