"""C16 - Path and node encodings are exact bijections matching their specifications.  (Engine L)"""
import sys

from vf.pylift import lrun

PROPERTY = "C16"
H = "vf.pylift.harnesses:"
ASSUMPTIONS = [
    "every nibble / bit / byte of the input is a z3 bit-vector (one query per length covers all contents); lengths are enumerated up to the bound",
    "node hashes and leaf values are atoms of an uninterpreted sort (their content is never inspected by the encoders)",
    "the Yellow Paper HP function is written arithmetically in the harness (vf/pylift/harnesses.py: yellow_paper_hp)",
    "no random testing beyond the bound is done: sampling is a different technique",
]
BOUNDS = {
    "quick": "HP: 0..8 nibbles x {terminated, not}; bytes<->nibbles <= 4 bytes / 8 nibbles; bit strings <= 3 bytes; key-path packing 0..20 bits (all residues mod 8 and mod 4); kv node paths 1..12 bits; parse_node rejection for lengths 0..3, 33, 34, 64, 65, 66 with symbolic content; hexary leaf/extension keys 0..6 nibbles; prefix kernels <= 3x3 nibbles",
    "thorough": "HP 0..16 nibbles; bytes <= 5 (6-8 bytes: z3 does not answer within the query budget on the 256-entry table ite chains); bit strings <= 5 bytes; key-path 0..40 bits; kv paths 1..24; hexary keys 0..12 nibbles; prefix kernels <= 5x5",
}
OUTSIDE = "lengths beyond the bound"


def obligations(tier):
    q = tier == "quick"
    obs = []

    def add(name, fn, builder, **params):
        obs.append({"name": name, "harness": H + fn, "builder": H + builder, "params": params, "timeout_s": 900})
    for n in range(0, (8 if q else 16) + 1):
        for term in (False, True):
            add("hex-prefix == Yellow Paper HP and decodes back", "h_hp", "b_hp", n=n, term=term)
    for n in range(0, 7 if q else 13):
        add("terminator add/remove", "h_terminator", "b_terminator", n=n)
        add("hexary leaf node classifies and yields its key path", "h_hex_leaf", "b_hex_node", n=n)
        add("hexary extension node classifies and yields its key path", "h_hex_ext", "b_hex_node", n=n)
    add("blank / branch classification", "h_hex_other", "b_hex_other")
    for n in (0, 1, 2, 5):
        add("is_blank/leaf/extension/branch_node: exactly one class per node, agreeing with get_node_type", "h_hex_helpers", "b_hex_node", n=n)
    for l, r in ((32, 32), (31, 33), (33, 31), (0, 64), (64, 0), (16, 48), (32, 31), (1, 32)):
        add("encode_branch_node refuses children that are not 32 bytes each, or round-trips", "h_branch_node_lens", "b_branch_node_lens", l=l, r=r)
    for n in range(0, (4 if q else 5) + 1):
        add("nibbles_to_bytes(bytes_to_nibbles(b)) == b, nibble values", "h_bytes_nibbles", "b_bytes_nibbles", n=n)
        add("bytes_to_nibbles(nibbles_to_bytes(x)) == x", "h_nibbles_bytes", "b_nibbles_bytes", n=2 * n)
        if n <= 2:
            add("nibbles_to_bytes refuses odd-length sequences (it is injective on what it accepts)", "h_nibbles_bytes", "b_nibbles_bytes", n=2 * n + 1)
    add("nibble tables equal their closed forms", "h_tables", "b_tables")
    for n in range(0, (3 if q else 5) + 1):
        add("decode_from_bin(encode_to_bin(b)) == b", "h_bin", "b_bin", n=n)
        add("encode_to_bin(decode_from_bin(bits)) == bits", "h_bits_roundtrip", "b_bits_roundtrip", n=8 * n)
    for n in range(0, (20 if q else 40) + 1):
        add("key-path packing round-trips", "h_keypath", "b_keypath", n=n)
    for n in list(range(1, (12 if q else 24) + 1)):
        add("parse_node(encode_kv_node) == parts", "h_kv_node", "b_kv_node", n=n)
    add("parse_node(encode_branch_node) == parts", "h_branch_node", "b_branch_node")
    for n in (1, 2, 32, 33, 64):
        add("parse_node(encode_leaf_node) == parts", "h_leaf_node", "b_leaf_node", n=n)
    for n in (0, 1, 2, 3, 33, 34, 35, 64, 65, 66):
        add("parse_node rejects empty / unknown-type / impossible-length nodes with InvalidNode", "h_parse_rejects", "b_parse_rejects", n=n)
    k = 3 if q else 5
    for na in range(0, k + 1):
        for nb in range(0, k + 1):
            add("common-prefix kernels", "h_prefix_kernels", "b_prefix_kernels", na=na, nb=nb)
    return obs


def run(tier):
    return lrun.run_l(sys.modules[__name__], tier)
