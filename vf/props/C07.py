"""C07 - Missing nodes: operations fail atomically and report the truth.  (Engine X)"""
import sys

from vf import common, xengine
from vf.props import hexquery

PROPERTY = "C07"
FUNCTIONS = ["trie.hexary.HexaryTrie.get/exists/set/delete/traverse/traverse_from/_traverse/_traverse_from/_raise_missing_node/_prune_on_success/_set_root_node/squash_changes/get_node",
             "trie.exceptions.MissingTrieNode/MissingTraversalNode", "trie.utils.db.ScratchDB.__getitem__"]
ASSUMPTIONS = [
    "the set of missing node bodies is one symbolic bool per database entry, read lazily by a hiding dict (vf/stubs.py HidingDict) when the entry is read: the trie code runs natively inside the CrossHair path and tracing is resumed for exactly that decision, so z3 forks the path at each first read of a node body; operation and key/path are symbolic indices into pools (stored keys, absent pool keys, prefixes; every node prefix and points inside leaves/extensions)",
    "'lies on the requested path' is decided by the independent canonical tree: nodes on the lookup route of the key; for delete additionally the children of branch nodes on that route (branch normalisation must read the single remaining sibling)",
    "tries are canonical oracle-built tries (hashed and mixed embedded/hashed nodes); only hashed nodes can be missing",
]
BOUNDS = {
    "quick": "every 2nd trie of the 64-trie family (32 tries) x {pruning, non-pruning} x {direct, inside squash_changes} + on every 4th trie a pruning trie freshly opened on the database (empty count table) with a two-write batch; 6 operations x <=8 keys / <=12 paths; all subsets of missing nodes (lazily split); retry loop until success",
    "thorough": "every 2nd of the 379 tries x 4 configurations + the fresh-pruning configuration",
}
OUTSIDE = "databases that fail other than by KeyError; nodes going missing between the retries; keys outside the pools"
NONTRIVIAL_RULE = "the operation first failed with a missing-node error at least once and then converged"


def jobs(tier):
    seed = common.seed()
    qbase = {"tier": tier, "kpool": "K7", "seed": seed, "maxlen": 3, "lift": False}
    n = len(hexquery.family_for(qbase))
    out = []
    cfgs = [(False, False), (True, False), (False, True), (True, True)]
    for mi in range(n):
        if mi % 2 != 0:
            continue
        for ci, (prune, batch) in enumerate(cfgs):
            out.append({"module": "vf.props.hexmiss", "fn": "h_missing", "cfg": dict(qbase, mi=mi, prune=prune, batch=batch), "pct": 2400, "ppt": 60})
        if mi % 4 == 2 or tier != "quick":      # after the first failure: a different write on the same object instead of a retry
            out.append({"module": "vf.props.hexmiss", "fn": "h_missing", "cfg": dict(qbase, mi=mi, prune=True, batch=False, after_fail="other", ops=[2, 3]), "pct": 2400, "ppt": 60})
        if mi % 4 == 0 or tier != "quick":      # pruning trie freshly opened on the database (empty count table), operations inside a batch
            out.append({"module": "vf.props.hexmiss", "fn": "h_missing", "cfg": dict(qbase, mi=mi, prune=True, batch=True, fresh=True, pre=True, ops=[2, 3]), "pct": 2400, "ppt": 60})
    out.append({"module": "vf.props.hexmiss", "fn": "r_missing", "cfg": dict(qbase, mi=n - 1, prune=False, batch=False), "pct": 600, "ppt": 60, "kind": "reach"})
    return out


def run(tier):
    return xengine.run_x(sys.modules[__name__], tier)
