"""C11 - HexaryTrieFog is an immutable, order-independent record of unexplored prefixes.  (Engine X)"""
import sys

from vf import common, xengine
from vf.props import hexfog

PROPERTY = "C11"
FUNCTIONS = ["trie.fog.HexaryTrieFog.explore/mark_all_complete/nearest_unknown/nearest_right/_prefix_distance/serialize/deserialize/is_complete/__eq__/_new_trie_fog", "trie.typing.Nibbles"]
ASSUMPTIONS = [
    "pre-states: every antichain reachable by explore((), segs) for segs a <=3 (quick: sampled; thorough: <=4, all) subset of all nibble tuples of length <=2 over the alphabet {0,1,2,15}; second operation, arguments and query key are symbolic indices exhausted by the solver; the fog code runs natively per path (nibbles are realised by the Nibble enum in any case)",
    "model R-fog: a set of tuples with explore(p,S) = (F-{p}) | {p+s}, refusal iff p not in F or S has duplicates / a segment that is a proper prefix of another; adjacency for nearest_unknown = predecessor or successor of the key in tuple order",
    "the fog's contents are observed through the public API only (serialize, nearest_right + mark_all_complete)",
]
BOUNDS = {
    "quick": "every 19th of the 1562 subsets (<=3 segments of length <=2 over 4 symbols) as initial exploration; second op: explore(p in 5 candidates, <=2 segments from 6), explore(p, one of 13 mixed-length lists with up to 4 segments / 4 different lengths), mark_all_complete(<=2 of 5), two commuting explores (3 segment lists each), nearest_unknown/nearest_right for 25 keys",
    "thorough": "all subsets of size <=2, every 3rd of size 3 and every 20th of size 4",
}
OUTSIDE = "alphabets larger than 4 symbols per position, more than 4 initial prefixes, segments longer than 3 nibbles"
NONTRIVIAL_RULE = "an accepted state-changing call, or a nearest query that returned a prefix"


def jobs(tier):
    cfgs = hexfog.configs(tier)
    seed = common.seed()
    out = []
    for i, segs in enumerate(cfgs):
        if tier == "quick":
            if (i + seed) % 19 != 0 and len(segs) > 1:
                continue
        elif (len(segs) == 4 and (i + seed) % 20 != 0) or (len(segs) == 3 and (i + seed) % 3 != 0):
            continue
        out.append({"module": "vf.props.hexfog", "fn": "h_fog", "cfg": {"segs": list(segs), "tier": tier}, "pct": 900, "ppt": 30})
    out.append({"module": "vf.props.hexfog", "fn": "r_fog", "cfg": {"segs": [1, 2], "tier": tier}, "pct": 300, "ppt": 30, "kind": "reach"})
    return out


def run(tier):
    return xengine.run_x(sys.modules[__name__], tier)
