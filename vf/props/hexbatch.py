"""squash_changes harness (C05, and the batch part of C06 / C04): from the canonical state of a contents
set, run a batch of <= N operations chosen by symbolic indices, leave the block normally, by an exception
after the j-th operation, or with the f-th commit write to the underlying database failing (position
chosen by a symbolic int), and compare with the all-or-nothing specification.

cfg: {"mi", "tier", "seed", "prune", "maxops", "checks": [...], "exits": "all"|"normal"|"abort"|"fail"}
"""
import itertools
from typing import List, Tuple  # noqa: F401

from vf import stubs
from vf.oracle import mpt
from vf.props import hexcommon as hc
from vf.xutil import notrace, pick, pick_from

stubs.warm()

from trie import HexaryTrie  # noqa: E402
from trie.exceptions import MissingTrieNode  # noqa: E402,F401

BK = [b"\x12", b"\x12\x34", b"\x12\x35", b"\x13", b"\x12\x34\x56"]
BV = [b"", b"\x01", hc.LONG_A, b"x" * 29]

CFG: dict = {}
KEYS: list = []
VALS: list = []
MODEL: dict = {}
PRE = None
QS: list = []
COUNTERS = {"nontrivial": 0, "paths": 0, "aborted": 0, "commit_failures_fired": 0}
SAMPLES: list = []
LAST_REASON = ""
_FAM: dict = {}
MAXFAIL = 6


class _Abort(Exception):
    pass


def batch_family(tier, seed):
    key = (tier, seed)
    if key in _FAM:
        return _FAM[key]
    f = hc._ROT[seed % 3]
    keys = [f(k) for k in BK]
    vals = [b"\x01", hc.LONG_A]
    out = []
    if tier in ("quick", "thorough"):
        for size in range(0, 3):
            for sub in itertools.combinations(range(3), size):
                pats = [[vals[0]] * size, [vals[1]] * size] if size else [[]]
                if size == 2:
                    pats.append([vals[0], vals[1]])
                for pat in pats:
                    out.append({keys[i]: v for i, v in zip(sub, pat)})
        specials = (((0, 1, 2), 1), ((0, 1, 2), 0), ((1, 2, 3), 1))
        for sub, vi in specials:
            out.append({keys[i]: vals[vi] for i in sub})
    else:
        for size in range(0, 3):
            for sub in itertools.combinations(range(5), size):
                for assign in itertools.product(vals, repeat=size):
                    out.append({keys[i]: v for i, v in zip(sub, assign)})
        for sub in ((0, 1, 2), (1, 2, 3), (1, 2, 4), (0, 1, 2, 3)):
            for pat in ([vals[1]] * len(sub), [vals[0]] * len(sub), [vals[i % 2] for i in range(len(sub))]):
                m = {keys[i]: v for i, v in zip(sub, pat)}
                if m not in out:
                    out.append(m)
    _FAM[key] = out
    return out


def configure(cfg):
    global CFG, KEYS, VALS, MODEL, PRE, QS
    CFG = dict(cfg)
    f = hc._ROT[cfg.get("seed", 0) % 3]
    nk = 3
    KEYS = [f(k) for k in BK][:nk]
    VALS = BV[:3]
    MODEL = dict(batch_family(cfg["tier"], cfg.get("seed", 0))[cfg["mi"]])
    PRE = hc.canonical_state(MODEL)
    qs = set(f(k) for k in BK) | set(MODEL)
    for k in list(qs):
        if k:
            qs.add(k[:-1])
    QS = sorted(qs)
    for k in COUNTERS:
        COUNTERS[k] = 0
    del SAMPLES[:]
    stubs.reset_caches()


def _fail(msg):
    global LAST_REASON
    LAST_REASON = msg
    return False


def exit_candidates(nops):
    ex = CFG.get("exits", "all")
    out = []
    if ex in ("all", "normal"):
        out.append(0)
    if ex in ("all", "abort"):
        out += [1 + j for j in range(nops + 1)]
    if ex in ("all", "fail") and not CFG["prune"]:
        out += [10 + f for f in range(MAXFAIL if CFG["tier"] != "quick" else 4)]
    return out


def _pre(ops, exit_code):
    if len(ops) > CFG["maxops"] or len(ops) < CFG.get("minops", 0):
        return False
    for (ki, vi) in ops:
        if not (0 <= ki < len(KEYS) and 0 <= vi < len(VALS)):
            return False
    return exit_code in exit_candidates(len(ops))


def _body(ops, exit_code):
    n = len(ops)
    cops = [(pick(ki, len(KEYS)), pick(vi, len(VALS))) for (ki, vi) in ops]
    ec = pick_from(exit_code, exit_candidates(n))
    with notrace():
        return _concrete(cops, ec)


def _reads_ok(t, model, what):
    for q in QS:
        try:
            got = t.get(q)
        except Exception as e:
            return f"{what}: get({q.hex()}) raised {type(e).__name__}: {e}"
        if got != model.get(q, b""):
            return f"{what}: get({q.hex()}) = {got!r}, expected {model.get(q, b'')!r}"
    return None


def _concrete(cops, ec):
    stubs.reset_caches()
    prune = CFG["prune"]
    checks = CFG["checks"]
    t, db = hc.trie_from_state(PRE, prune, stubs.FailingDict)
    before_db = dict(db)
    before_root = t.root_hash
    before_rc = hc.nz(t.ref_count) if prune else None
    model = dict(MODEL)
    abort_after = ec - 1 if 1 <= ec < 10 else None
    if ec >= 10:
        db.arm(ec - 10)
    raised = None
    try:
        with t.squash_changes() as b:
            for j, (ki, vi) in enumerate(cops):
                if abort_after == j:
                    raise _Abort()
                k, v = KEYS[ki], VALS[vi]
                if v == b"":
                    b.delete(k)
                    model.pop(k, None)
                else:
                    b.set(k, v)
                    model[k] = v
                if "inbatch" in checks:
                    r = _reads_ok(b, model, f"inside the batch after op {j}")
                    if r:
                        return _fail(r)
                    if dict(db) != before_db or t.root_hash != before_root:
                        return _fail(f"underlying db or outer root changed while the batch was open (op {j})")
            if abort_after == len(cops):
                raise _Abort()
    except _Abort:
        raised = "abort"
    except stubs.DbWriteFailure:
        raised = "commit-failure"
    except Exception as e:
        return _fail(f"batch raised {type(e).__name__}: {e}")
    db.disarm()
    if raised is None:
        # ---- committed -------------------------------------------------------------------------
        root2, db2, rc2 = hc.canonical_state(model)
        if "root" in checks and t.root_hash != root2:
            return _fail(f"outer root {t.root_hash.hex()[:12]} is not the canonical root {root2.hex()[:12]} of the resulting contents")
        if "commit" in checks:
            try:
                reach = hc.reachable(db, t.root_hash)
            except KeyError as e:
                return _fail(f"node {e.args[0].hex()[:12]} needed for the new root is not in the underlying database")
            if not prune:
                for k, v in before_db.items():
                    if db.get(k) != v:
                        return _fail(f"non-pruning batch removed/changed pre-existing entry {k.hex()[:12]}")
                for k in db:
                    if k not in before_db and k not in reach:
                        return _fail(f"node {k.hex()[:12]} that served only an intermediate state was added by the batch")
        if prune and "exact" in checks:
            if dict(db) != db2:
                extra = [k.hex()[:12] for k in db if k not in db2]
                missing = [k.hex()[:12] for k in db2 if k not in db]
                return _fail(f"after the committed batch the pruning db is not exactly the live node set: leftover={extra} missing={missing}")
            if hc.nz(t.ref_count) != rc2:
                return _fail("after the committed batch the reference counts differ from the true counts")
        if "reads" in checks:
            r = _reads_ok(t, model, "after the committed batch")
            if r:
                return _fail(r)
        if model != MODEL:
            COUNTERS["nontrivial"] += 1
    else:
        # ---- aborted / commit failed: everything as before ---------------------------------------
        if "atomic" in checks:
            if t.root_hash != before_root:
                return _fail(f"outer root moved although the block was left by {raised}")
            if raised == "abort" or prune:
                if dict(db) != before_db:
                    return _fail(f"underlying database changed although the block was left by {raised}")
            else:
                for k, v in before_db.items():
                    if db.get(k) != v:
                        return _fail("a failed commit removed/changed a pre-existing entry")
                for k, v in db.items():
                    if k not in before_db and mpt.keccak(v) != k:
                        return _fail("a failed commit left an entry not keyed by its hash")
            if prune and hc.nz(t.ref_count) != before_rc:
                return _fail(f"reference counts changed although the block was left by {raised}")
        if prune and "exact" in checks:
            if dict(db) != before_db or hc.nz(t.ref_count) != before_rc:
                return _fail(f"pruning db / reference counts are no longer exact after a block left by {raised}")
        if "reads" in checks:
            r = _reads_ok(t, MODEL, f"after the block was left by {raised}")
            if r:
                return _fail(r)
        # the trie remains fully usable: one more write (to the key the batch touched first) and read-back
        if "usable" in checks:
            k2, v2 = (KEYS[cops[0][0]] if cops else KEYS[0]), hc.LONG_B
            m3 = dict(MODEL)
            m3[k2] = v2
            try:
                t.set(k2, v2)
            except Exception as e:
                return _fail(f"set after a block left by {raised} raised {type(e).__name__}: {e}")
            root3, db3, rc3 = hc.canonical_state(m3)
            if "root" in checks and t.root_hash != root3:
                return _fail(f"root after a later set is not canonical (block left by {raised})")
            if prune and "exact" in checks and (dict(db) != db3 or hc.nz(t.ref_count) != rc3):
                return _fail(f"pruning state after a later set is not exact (block left by {raised})")
            r = _reads_ok(t, m3, f"after a later set (block left by {raised})")
            if r:
                return _fail(r)
        COUNTERS["aborted"] += 1
        if raised == "commit-failure":
            COUNTERS["commit_failures_fired"] += 1
        COUNTERS["nontrivial"] += 1
    COUNTERS["paths"] += 1
    if len(SAMPLES) < 3 and (raised or model != MODEL):
        SAMPLES.append({"pre": {k.hex(): len(v) for k, v in MODEL.items()}, "batch": [(KEYS[a].hex(), len(VALS[b_])) for a, b_ in cops], "exit": raised or "normal", "prune": prune})
    return True


def h_batch(ops: List[Tuple[int, int]], exit_code: int) -> bool:
    """
    pre: _pre(ops, exit_code)
    post: _
    """
    return _body(ops, exit_code)


def r_batch(ops: List[Tuple[int, int]], exit_code: int) -> bool:
    """
    reachability twin: an exceptional exit (abort or a commit failure that really fired) after a contents-changing batch
    pre: _pre(ops, exit_code)
    post: _
    """
    before = COUNTERS["commit_failures_fired"] + COUNTERS["aborted"]
    ok = _body(ops, exit_code)
    if ok and len(ops) >= 1 and COUNTERS["commit_failures_fired"] + COUNTERS["aborted"] > before:
        return False
    return ok


WARM = {
    "h_batch": lambda cfg: [([(1, 2)], 0), ([(1, 2), (1, 0)][: cfg["maxops"]], 0)],
    "r_batch": lambda cfg: [([(1, 2)], 0)],
}


def batch_jobs(tier, checks, seed, prunes, maxops=None, exits="all", select=None, pct=1500):
    base = {"tier": tier, "seed": seed, "checks": checks, "maxops": maxops or (2 if tier == "quick" else 3), "exits": exits}
    n = len(batch_family(tier, seed))
    out = []
    for mi in range(n):
        for pi, prune in enumerate(prunes):
            if select is not None and not select(mi, pi):
                continue
            out.append({"module": "vf.props.hexbatch", "fn": "h_batch", "cfg": dict(base, mi=mi, prune=prune), "pct": pct, "ppt": 30})
    out.append({"module": "vf.props.hexbatch", "fn": "r_batch", "cfg": dict(base, mi=min(5, n - 1), prune=prunes[-1], exits="abort" if prunes[-1] else "fail"),
                "pct": 300, "ppt": 30, "kind": "reach"})
    return out
