"""C18 harness: invalid arguments are rejected up front and change nothing.

`bad` is a genuinely symbolic value of a union of wrong types (the solver picks type and value: falsy and
truthy ints/strings/lists, None, floats, bytearrays, tuples ...), or a byte string / list / int of a wrong
size; it travels through the real entry point under CrossHair tracing.  The entry point is chosen by a
symbolic index.  Afterwards the structures must be exactly as before and a fixed follow-up sequence must
give the results of a twin run without the bad call.

cfg: {"hist": 0|1|2, "prune": bool, "group": "hex"|"bin"|"smt"|"size"|"nib"}
"""
from collections import defaultdict  # noqa: F401
from typing import List, Optional, Tuple, Union  # noqa: F401

from vf import stubs
from vf.xutil import notrace, pick

stubs.warm()

from eth_utils import ValidationError as EthValidationError  # noqa: E402
from trie import BinaryTrie, HexaryTrie  # noqa: E402
from trie.branches import check_if_branch_exist, get_branch, get_witness_for_key_prefix, if_branch_valid  # noqa: E402
from trie.exceptions import ValidationError  # noqa: E402
from trie.fog import HexaryTrieFog  # noqa: E402
from trie.smt import SparseMerkleProof, SparseMerkleTree, calc_root  # noqa: E402
from trie.typing import Nibbles  # noqa: E402

CFG: dict = {}
COUNTERS = {"nontrivial": 0, "paths": 0}
SAMPLES: list = []
LAST_REASON = ""
K1, K2, K3 = b"\x12\x34", b"\x12\x35", b"\x13"
V1, V2 = b"v" * 40, b"\x07"
TWIN: dict = {}

Bad = Union[int, str, None, float, bytearray, List[int], Tuple[int, ...], bool]


def configure(cfg):
    global CFG
    CFG = dict(cfg)
    COUNTERS["nontrivial"] = 0
    COUNTERS["paths"] = 0
    del SAMPLES[:]
    stubs.reset_caches()
    TWIN.clear()
    w = _World()
    TWIN["after"] = w.followup()


def _fail(msg):
    global LAST_REASON
    LAST_REASON = msg
    return False


class _World:
    """the three structures after a short valid history"""

    def __init__(self):
        stubs.reset_caches()
        hist, prune = CFG.get("hist", 1), CFG.get("prune", False)
        self.hdb = {}
        self.hex = HexaryTrie(self.hdb, prune=prune)
        self.bdb = {}
        self.bin = BinaryTrie(self.bdb)
        self.smt = SparseMerkleTree(key_size=1, default=b"d" if hist == 2 else b"")
        if hist >= 1:
            self.hex.set(K1, V1)
            self.bin.set(K1, V1)
            self.smt.set(b"\x05", V2)
        if hist >= 2:
            self.hex.set(K2, V2)
            self.hex.set(K3, V1)
            self.bin.set(K2, V2)
            self.smt.set(b"\x85", V1)
        self.fog = HexaryTrieFog().explore((), [(1,), (2, 3)])
        self.proof = SparseMerkleProof(b"\x05", self.smt._get(b"\x05")[0], self.smt._get(b"\x05")[1])

    def snapshot(self):
        return (self.hex.root_hash, dict(self.hdb), dict((k, v) for k, v in self.hex.ref_count.items() if v) if self.hex.is_pruning else None,
                self.bin.root_hash, dict(self.bdb), self.smt.root_hash, dict(self.smt.db), self.fog.serialize(),
                self.proof.value, self.proof.branch)

    def followup(self):
        """a fixed valid continuation; its observable results"""
        out = []
        self.hex.set(K2, b"w" * 33)
        self.hex.delete(K1)
        out += [self.hex.root_hash, self.hex.get(K1), self.hex.get(K2), self.hex.get(K3), sorted(self.hdb.items())]
        if self.hex.is_pruning:
            out.append(sorted((k, v) for k, v in self.hex.ref_count.items() if v))
        self.bin.set(K3, b"z")
        out += [self.bin.root_hash, self.bin.get(K1), self.bin.get(K3), sorted(self.bdb.items())]
        up = self.smt.set(b"\x06", b"n")
        self.proof.update(b"\x06", b"n", up)
        out += [self.smt.root_hash, self.smt._get(b"\x05"), sorted(self.smt.db.items()), self.proof.root_hash, self.proof.branch]
        out.append(self.fog.explore((1,), [(4,)]).serialize())
        return out


# entry points: (name, expected exception types, callable(world, bad))
def _hex_entries():
    def in_batch(f):
        def g(w, bad):
            with w.hex.squash_changes() as b:
                try:
                    f(b, bad)
                except ValidationError:
                    raise _Refused()
            return None
        return g
    E = (ValidationError,)
    return [
        ("HexaryTrie.get(bad)", E, lambda w, b: w.hex.get(b)),
        ("HexaryTrie.set(bad, v)", E, lambda w, b: w.hex.set(b, V2)),
        ("HexaryTrie.set(k, bad)", E, lambda w, b: w.hex.set(K1, b)),
        ("HexaryTrie.delete(bad)", E, lambda w, b: w.hex.delete(b)),
        ("HexaryTrie.exists(bad)", E, lambda w, b: w.hex.exists(b)),
        ("HexaryTrie[bad]", E, lambda w, b: w.hex[b]),
        ("HexaryTrie[bad] = v", E, lambda w, b: w.hex.__setitem__(b, V2)),
        ("HexaryTrie[k] = bad", E, lambda w, b: w.hex.__setitem__(K1, b)),
        ("del HexaryTrie[bad]", E, lambda w, b: w.hex.__delitem__(b)),
        ("bad in HexaryTrie", E, lambda w, b: b in w.hex),
        ("HexaryTrie.get_proof(bad)", E, lambda w, b: w.hex.get_proof(b)),
        ("HexaryTrie.get_from_proof(bad root, k, proof)", E, lambda w, b: HexaryTrie.get_from_proof(b, K1, ())),
        ("HexaryTrie.get_from_proof(root, bad key, proof)", E, lambda w, b: HexaryTrie.get_from_proof(w.hex.root_hash, b, w.hex.get_proof(K1))),
        ("HexaryTrie(db, bad root)", E, lambda w, b: HexaryTrie(w.hdb, b)),
        ("HexaryTrie.at_root(bad)", E, lambda w, b: w.hex.at_root(b).__enter__()),
        ("batch.set(bad, v) inside squash_changes", (_Refused,), in_batch(lambda bt, b: bt.set(b, V2))),
        ("batch.set(k, bad) inside squash_changes", (_Refused,), in_batch(lambda bt, b: bt.set(K1, b))),
        ("batch.delete(bad) inside squash_changes", (_Refused,), in_batch(lambda bt, b: bt.delete(b))),
    ]


class _Refused(Exception):
    pass


def _bin_entries():
    E = (ValidationError,)
    return [
        ("BinaryTrie.get(bad)", E, lambda w, b: w.bin.get(b)),
        ("BinaryTrie.set(bad, v)", E, lambda w, b: w.bin.set(b, V2)),
        ("BinaryTrie.set(k, bad)", E, lambda w, b: w.bin.set(K1, b)),
        ("BinaryTrie.set(absent k, bad)", E, lambda w, b: w.bin.set(b"\x77\x01", b)),
        ("BinaryTrie.delete(bad)", E, lambda w, b: w.bin.delete(b)),
        ("BinaryTrie.delete_subtrie(bad)", E, lambda w, b: w.bin.delete_subtrie(b)),
        ("BinaryTrie.exists(bad)", E, lambda w, b: w.bin.exists(b)),
        ("BinaryTrie[bad]", E, lambda w, b: w.bin[b]),
        ("BinaryTrie[k] = bad", E, lambda w, b: w.bin.__setitem__(K1, b)),
        ("del BinaryTrie[bad]", E, lambda w, b: w.bin.__delitem__(b)),
        ("bad in BinaryTrie", E, lambda w, b: b in w.bin),
        ("BinaryTrie(db, bad root)", E, lambda w, b: BinaryTrie(w.bdb, b)),
        ("check_if_branch_exist(db, root, bad)", E, lambda w, b: check_if_branch_exist(w.bdb, w.bin.root_hash, b)),
        ("get_branch(db, root, bad)", E, lambda w, b: get_branch(w.bdb, w.bin.root_hash, b)),
        ("get_witness_for_key_prefix(db, root, bad)", E, lambda w, b: get_witness_for_key_prefix(w.bdb, w.bin.root_hash, b)),
        ("if_branch_valid(branch, root, bad key, value)", E, lambda w, b: if_branch_valid([b"\x02x"], w.bin.root_hash, b, b"x")),
    ]


def _smt_entries():
    E = (ValidationError,)
    br = tuple([b"\x00" * 32] * 8)
    return [
        ("SparseMerkleTree.get(bad)", E, lambda w, b: w.smt.get(b)),
        ("SparseMerkleTree.set(bad, v)", E, lambda w, b: w.smt.set(b, V2)),
        ("SparseMerkleTree.set(k, bad)", E, lambda w, b: w.smt.set(b"\x05", b)),
        ("SparseMerkleTree.delete(bad)", E, lambda w, b: w.smt.delete(b)),
        ("SparseMerkleTree.exists(bad)", E, lambda w, b: w.smt.exists(b)),
        ("SparseMerkleTree.branch(bad)", E, lambda w, b: w.smt.branch(b)),
        ("SparseMerkleTree[bad]", E, lambda w, b: w.smt[b]),
        ("SparseMerkleTree[k] = bad", E, lambda w, b: w.smt.__setitem__(b"\x05", b)),
        ("bad in SparseMerkleTree", E, lambda w, b: b in w.smt),
        ("SparseMerkleTree.from_db(db, bad root)", E, lambda w, b: SparseMerkleTree.from_db(w.smt.db, b, key_size=1)),
        ("calc_root(bad key, v, branch)", E, lambda w, b: calc_root(b, b"", br)),
        ("calc_root(k, bad value, branch)", E, lambda w, b: calc_root(b"\x05", b, br)),
        ("SparseMerkleProof(bad key, v, branch)", E, lambda w, b: SparseMerkleProof(b, b"", br)),
        ("SparseMerkleProof(k, bad value, branch)", E, lambda w, b: SparseMerkleProof(b"\x05", b, br)),
        ("SparseMerkleProof.update(bad key, v, hashes)", E, lambda w, b: w.proof.update(b, b"x", br)),
    ]


ENTRIES = {"hex": _hex_entries(), "bin": _bin_entries(), "smt": _smt_entries()}


def _run_entry(entry, bad):
    """-> None or failure reason. The entry point runs traced with the symbolic argument."""
    name, exc_types, fn = entry
    with notrace():
        w = _World()
        snap = w.snapshot()
    try:
        fn(w, bad)
        return f"{name} accepted an argument of a wrong type/size instead of raising {exc_types[0].__name__}"
    except exc_types:
        pass
    except Exception as e:
        return f"{name} raised {type(e).__name__} ({e}) instead of {exc_types[0].__name__}"
    with notrace():
        if w.snapshot() != snap:
            return f"{name}: root / database / reference counts changed by the refused call"
        try:
            after = w.followup()
        except Exception as e:
            return f"{name}: a later valid operation raised {type(e).__name__}: {e}"
        if after != TWIN["after"]:
            return f"{name}: later results differ from a run without the refused call"
    COUNTERS["paths"] += 1
    COUNTERS["nontrivial"] += 1
    return None


def h_badtype(bad: Bad, which: int) -> bool:
    """
    pre: 0 <= which < len(ENTRIES[CFG["group"]])
    post: _
    """
    ents = ENTRIES[CFG["group"]]
    i = pick(which, len(ents))
    r = _run_entry(ents[i], bad)
    if r:
        return _fail(r)
    if len(SAMPLES) < 2:
        SAMPLES.append({"entry": ents[i][0], "bad_type": type(bad).__name__})
    return True


def r_badtype(bad: Bad, which: int) -> bool:
    """
    reachability twin: a falsy ill-typed value reaches an entry point
    pre: 0 <= which < len(ENTRIES[CFG["group"]])
    post: _
    """
    ok = h_badtype(bad, which)
    if ok and not isinstance(bad, (bytes, float)) and not bad:
        return False
    return ok


# ---- wrong sizes --------------------------------------------------------------------------------
def _size_entries():
    E = (ValidationError,)
    return [
        ("SparseMerkleTree.get(key of wrong length)", "key", E, lambda w, k: w.smt.get(k)),
        ("SparseMerkleTree.set(key of wrong length, v)", "key", E, lambda w, k: w.smt.set(k, V2)),
        ("SparseMerkleTree.delete(key of wrong length)", "key", E, lambda w, k: w.smt.delete(k)),
        ("SparseMerkleTree.exists(key of wrong length)", "key", E, lambda w, k: w.smt.exists(k)),
        ("SparseMerkleTree.branch(key of wrong length)", "key", E, lambda w, k: w.smt.branch(k)),
        ("SparseMerkleProof.update(key of wrong length, ...)", "key", E, lambda w, k: w.proof.update(k, b"x", tuple([b"\x00" * 32] * 8))),
        ("SparseMerkleTree.from_db(db, root of wrong length)", "root", E, lambda w, r: SparseMerkleTree.from_db(w.smt.db, r, key_size=1)),
        ("calc_root(k, v, branch of wrong length)", "branch", E, lambda w, n: calc_root(b"\x05", b"", tuple([b"\x00" * 32] * n))),
        ("SparseMerkleProof(k, v, branch of wrong length)", "branch", E, lambda w, n: SparseMerkleProof(b"\x05", b"", tuple([b"\x00" * 32] * n))),
        ("SparseMerkleTree(key_size outside 1..32)", "ksize", E, lambda w, n: SparseMerkleTree(key_size=n)),
        ("SparseMerkleTree.from_db(key_size outside 1..32)", "ksize", E, lambda w, n: SparseMerkleTree.from_db({}, b"\x00" * 32, key_size=n)),
        ("HexaryTrie.at_root on a pruning trie", "none", E, lambda w, n: HexaryTrie({}, prune=True).at_root(w.hex.root_hash).__enter__()),
        ("HexaryTrie(db, prune=False, ref_count=...)", "none", (ValueError,), lambda w, n: HexaryTrie(w.hdb, w.hex.root_hash, prune=False, ref_count=defaultdict(int))),
    ]


SIZE = _size_entries()


def _pre_size(which, key, n):
    if not 0 <= which < len(SIZE):
        return False
    return len(key) <= 40 and -3 <= n <= 40


def h_badsize(which: int, key: bytes, n: int) -> bool:
    """
    pre: _pre_size(which, key, n)
    post: _
    """
    i = pick(which, len(SIZE))
    name, kind, E, fn = SIZE[i]
    if kind == "key":
        if len(key) == 1:
            return True
        arg = key
    elif kind == "root":
        if len(key) == 32:
            return True
        arg = key
    elif kind == "branch":
        if n == 8 or n < 0 or n > 12:
            return True
        arg = n
    elif kind == "ksize":
        if 1 <= n <= 32:
            return True
        arg = n
    else:
        if n != 0 or len(key) != 0:
            return True
        arg = 0
    r = _run_entry((name, E, fn), arg)
    if r:
        return _fail(r)
    return True


# ---- malformed nibble sequences ----------------------------------------------------------------------
def _nib_entries():
    E = (TypeError, ValueError)
    from trie.exceptions import MissingTraversalNode, MissingTrieNode, TraversedPartialPath
    return [
        ("Nibbles(seq)", E, lambda w, x: Nibbles(x)),
        ("Nibbles((1,)) + seq", E, lambda w, x: Nibbles((1,)) + (tuple(x) if isinstance(x, list) else x)),
        ("HexaryTrie.traverse(Nibbles(()) + seq)", E, lambda w, x: w.hex.traverse(Nibbles(()) + (tuple(x) if isinstance(x, list) else x))),
        ("HexaryTrie.traverse(seq)", E, lambda w, x: w.hex.traverse(x)),
        ("HexaryTrie.traverse_from(root_node, seq)", E, lambda w, x: w.hex.traverse_from(w.hex.root_node, x)),
        ("HexaryTrieFog.explore(seq, ())", E, lambda w, x: w.fog.explore(x, ())),
        ("HexaryTrieFog.explore((), [seq])", E, lambda w, x: w.fog.explore((), [x])),
        ("HexaryTrieFog.mark_all_complete([seq])", E, lambda w, x: w.fog.mark_all_complete([x])),
        ("HexaryTrieFog.nearest_unknown(seq)", E, lambda w, x: w.fog.nearest_unknown(x)),
        ("HexaryTrieFog.nearest_right(seq)", E, lambda w, x: w.fog.nearest_right(x)),
        ("MissingTraversalNode(hash, seq)", E, lambda w, x: MissingTraversalNode(b"\x00" * 32, x)),
        ("MissingTrieNode(hash, root, key, seq)", E, lambda w, x: MissingTrieNode(b"\x00" * 32, b"\x00" * 32, b"", x)),
        ("TraversedPartialPath(seq, node, tail)", E, lambda w, x: TraversedPartialPath(x, w.hex.root_node, (1,))),
    ]


NIB = _nib_entries()


def _pre_nib(which, xs, pos, v):
    if not 0 <= which < len(NIB):
        return False
    if len(xs) > 2 or not 0 <= pos <= len(xs):
        return False
    for x in xs:
        if x != 0 and x != 15:          # the Nibble enum realises every element: keep the domain small
            return False
    return v in (-1, 16, 256)


def h_badnibbles(which: int, xs: List[int], pos: int, v: int) -> bool:
    """
    a sequence of valid nibbles with one out-of-range int `v` inserted at a symbolic position
    pre: _pre_nib(which, xs, pos, v)
    post: _
    """
    i = pick(which, len(NIB))
    seq = list(xs[:pos]) + [v] + list(xs[pos:])
    r = _run_entry(NIB[i], seq)
    if r:
        return _fail(r)
    return True


NOT_SEQS = [None, 0, 15, -1, 16, "", "ab", b"", b"\x01\x02", 1.5, True, {1: 2}, {1}, bytearray(b"\x01")]


def h_notnibbles(ni: int, which: int) -> bool:
    """
    something that is not a list/tuple at all where a nibble sequence is expected.  (The TypeError message of
    Nibbles() formats the offending value, which would realise a symbolic one: values come from a pool.)
    pre: 0 <= ni < len(NOT_SEQS) and 0 <= which < len(NIB)
    post: _
    """
    i, n = pick(which, len(NIB)), pick(ni, len(NOT_SEQS))
    bad = NOT_SEQS[n]
    if bad is None and NIB[i][0].startswith("MissingTrieNode"):
        return True           # prefix=None is the documented "no prefix" value of MissingTrieNode
    r = _run_entry(NIB[i], bad)
    if r:
        return _fail(r)
    return True


BAD_ELEMS = [None, -1, 16, 17, 256, "", "a", "10", b"", b"\x01", 1.5, float("nan"), [1], (2,)]


def h_badelement(ei: int, pos: int, which: int) -> bool:
    """
    a sequence with one element that is not a nibble (the Nibble enum realises elements, so they come from a pool)
    pre: 0 <= ei < len(BAD_ELEMS) and 0 <= pos <= 2 and 0 <= which < len(NIB)
    post: _
    """
    i, e, p = pick(which, len(NIB)), pick(ei, len(BAD_ELEMS)), pick(pos, 3)
    seq = [1, 2]
    seq.insert(p, BAD_ELEMS[e])
    r = _run_entry(NIB[i], seq)
    if r:
        return _fail(r)
    return True


WARM = {
    "h_badtype": lambda cfg: [(None, 0), (3, 1), ("", 2), ([1], 3)],
    "r_badtype": lambda cfg: [(1, 0)],
    "h_badsize": lambda cfg: [(0, b"ab", 0), (6, b"x" * 31, 0), (7, b"", 7), (9, b"", 0), (9, b"", 33), (11, b"", 0), (12, b"", 0)],
    "h_badnibbles": lambda cfg: [(0, [1, 2], 1, 16), (1, [], 0, -1), (3, [1], 0, 99)],
    "h_notnibbles": lambda cfg: [(0, 0), (5, 1), (3, 2)],
    "h_badelement": lambda cfg: [(0, 0, 0), (6, 1, 1), (10, 2, 3)],
}
