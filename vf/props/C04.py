"""C04 - Non-pruning tries never lose or alter history: old roots stay readable.  (Engine X)"""
import sys

from vf import common, xengine
from vf.props import hexstep

PROPERTY = "C04"
FUNCTIONS = ["trie.hexary.HexaryTrie.set/delete/_set*/_delete*/_persist_node/_set_db_value/_set_root_node/_set_raw_node/squash_changes/at_root", "trie.utils.db.ScratchDB.batch_commit"]
ASSUMPTIONS = [
    "one shared dict-like database holds the canonical nodes of two contents sets: trie A (operated on) and an independent view B / older root; operation = symbolic indices, failing write position = symbolic int compared inside the dict wrapper at every write (the solver forks at each write the run reaches)",
    "append-only + content-addressed is checked per step from arbitrary canonical pre-states (inductive: the check does not depend on how the database got its contents); readability of old roots is checked through fresh tries, at_root snapshots and the second view",
    "after a failed write the property is read as: the current root is the old or the new root and is fully readable with that root's contents, all earlier roots are intact, and repeating the operation succeeds",
    "databases that fail on reads or fail silently, and non-dict back ends, are outside the claim",
]
BOUNDS = {
    "quick": "A: every 2nd contents set of the 135-set family, B: another family member; ops {set,[]=,delete,del} x 7 keys x 4 values; failing write index in -1..5; direct / one-op squash_changes batch / batch preceded by an earlier committed batch / batch that first re-creates the other trie's contents alternate over the sets",
    "thorough": "every 2nd set of the 10-key thorough family, 7-value pool, modes alternating",
}
OUTSIDE = "more than two tries on one database; multi-operation batches with failing commits (C05); failure positions beyond the 6th write"
NONTRIVIAL_RULE = "the operation changed the contents or a write failure fired"


def jobs(tier):
    seed = common.seed()
    kp, vp = ("K7", "V4") if tier == "quick" else ("K10", "V7")
    base = {"tier": tier, "kpool": kp, "vpool": vp, "seed": seed}
    n = len(hexstep.family_for(base))
    out = []
    for mi in range(n):
        if mi % 2:
            continue
        modes = [["batch_recreate", "direct", "batch", "batch2"][(mi // 2) % 4]]
        for mode in modes:
            out.append({"module": "vf.props.hexhist", "fn": "h_hist", "cfg": dict(base, mi=mi, mi2=(mi * 5 + 17), mode=mode), "pct": 1500, "ppt": 30})
    out.append({"module": "vf.props.hexhist", "fn": "r_hist", "cfg": dict(base, mi=min(60, n - 1), mi2=3, mode="direct"), "pct": 600, "ppt": 30, "kind": "reach"})
    return out


def run(tier):
    return xengine.run_x(sys.modules[__name__], tier)
