"""C05 - squash_changes is an all-or-nothing batch.  (Engine X)"""
import sys

from vf import common, xengine
from vf.props import hexbatch

PROPERTY = "C05"
FUNCTIONS = ["trie.hexary.HexaryTrie.squash_changes", "trie.utils.db.ScratchDB.batch_commit/__getitem__/__setitem__/__delitem__/__contains__",
             "trie.hexary.HexaryTrie.set/delete/_prune_on_success/_complete_pruning/_set_root_node (on the batch trie)"]
ASSUMPTIONS = [
    "pre-states are canonical states of the family's contents sets (oracle-built); batch operations, exit kind, abort position and failing commit write are symbolic ints exhausted by the path search, the batch itself then runs on concrete data",
    "commit write failures are injected by a dict subclass whose f-th __setitem__ raises (non-pruning outer trie only, as in the statement); reads never fail here (C07)",
    "after an exceptional exit 'previously stored contents exactly as before' is checked as: root identical, every earlier db entry unchanged, all pool keys read as before, (pruning) db and ref counts identical; a failed commit of a non-pruning trie may leave additional hash-keyed entries",
]
BOUNDS = {
    "quick": "pre-states: <=2-subsets of 3 keys x {1B,33B,mixed} + 3 special 3-key sets (19 sets); batch of <=2 ops over 3 keys x {delete, 1B, 33B}; exits: normal, exception after op j (every j), commit write f in 0..3 failing; prune in {F,T}",
    "thorough": "same 19 pre-states and pools; batch of <=3 ops; commit write f in 0..5 failing",
}
OUTSIDE = "batches longer than the bound; exceptions raised by the database on reads; nested batches; use of the outer trie while the batch is open"
NONTRIVIAL_RULE = "committed batch that changed the contents, or any exceptional exit"


def jobs(tier):
    return hexbatch.batch_jobs(tier, ["root", "commit", "exact", "atomic", "reads", "inbatch", "usable"], common.seed(), [False, True])


def run(tier):
    return xengine.run_x(sys.modules[__name__], tier)
