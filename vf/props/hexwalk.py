"""C09 harness: a fog-guided walk finds everything, even while the trie changes.

The schedule (walk steps with either fog query and any query key, interleaved with mutations) is a list
of symbolic (kind, arg) pairs exhausted by the solver; each schedule then runs natively against the real
HexaryTrie / HexaryTrieFog / TrieFrontierCache following the protocol of the repository's own walk tests
(traverse from the root or traverse_from a cached parent, stale-cache fallback, simulated node on
TraversedPartialPath, explore with the node's sub-segments).

cfg: {"mi", "tier", "kpool", "seed", "prune", "cache", "maxev", "maxmut"}
"""
from typing import List, Tuple  # noqa: F401

from vf import stubs
from vf.oracle import mpt
from vf.props import hexcommon as hc
from vf.props import hexquery
from vf.xutil import notrace, pick

stubs.warm()

from trie import HexaryTrie  # noqa: E402
from trie.exceptions import FullDirectionalVisibility, MissingTraversalNode, PerfectVisibility, TraversedPartialPath  # noqa: E402
from trie.fog import HexaryTrieFog, TrieFrontierCache  # noqa: E402

CFG: dict = {}
MODEL: dict = {}
STATE = None
KEYS: list = []
QUERIES = [(), (1, 2, 3), (15,), (1, 3)]
NEWV = [b"\x02", b"C" * 34]
COUNTERS = {"nontrivial": 0, "paths": 0, "partial_paths_hit": 0, "stale_cache_fallbacks": 0, "mutations": 0}
SAMPLES: list = []
LAST_REASON = ""


def configure(cfg):
    global CFG, MODEL, STATE, KEYS
    CFG = dict(cfg)
    fam = hexquery.family_for(cfg)
    MODEL = dict(fam[cfg["mi"]])
    STATE = hc.canonical_state(MODEL)
    pool = hc.key_pool(cfg["kpool"], cfg.get("seed", 0))
    ks = list(MODEL) + [k for k in pool if k not in MODEL]
    KEYS = ks[:4]
    for k in COUNTERS:
        COUNTERS[k] = 0
    del SAMPLES[:]
    stubs.reset_caches()


def _fail(msg):
    global LAST_REASON
    LAST_REASON = msg
    return False


NKINDS = 5     # 0 step/nearest_unknown, 1 step/nearest_right, 2 set, 3 delete, 4 delete every key extending KEYS[arg]


def _nargs(kind):
    if kind <= 1:
        return len(QUERIES) if CFG.get("wtier", CFG["tier"]) != "quick" else 2
    if kind == 2:
        return len(KEYS) * 2
    return len(KEYS)


def _pre(events):
    if len(events) > CFG["maxev"]:
        return False
    muts = 0
    for (kind, arg) in events:
        if not 0 <= kind < NKINDS:
            return False
        if not 0 <= arg < _nargs(kind):
            return False
        if kind >= 2:
            muts += 1
    return muts <= CFG["maxmut"]


def h_walk(events: List[Tuple[int, int]]) -> bool:
    """
    pre: _pre(events)
    post: _
    """
    evs = []
    for (kind, arg) in events:
        k = pick(kind, NKINDS)
        evs.append((k, pick(arg, _nargs(k))))
    with notrace():
        return _walk(evs)


class _Walker:
    def __init__(self, trie, use_cache):
        self.trie = trie
        self.fog = HexaryTrieFog()
        self.cache = TrieFrontierCache() if use_cache else None
        self.met = []          # (key nibbles, value)
        self.steps = 0
        self.first_step_done = False

    def step(self, use_right, qkey):
        """one exploration; returns False when the fog is complete. Raises on protocol violations."""
        try:
            if use_right:
                try:
                    prefix = self.fog.nearest_right(qkey)
                except FullDirectionalVisibility:
                    prefix = self.fog.nearest_unknown(qkey)
            else:
                prefix = self.fog.nearest_unknown(qkey)
        except PerfectVisibility:
            return False
        for _retry in range(4):
            cached = None
            try:
                if self.cache is not None:
                    try:
                        cached, rest = self.cache.get(prefix)
                    except KeyError:
                        node = self.trie.traverse(prefix)
                    else:
                        node = self.trie.traverse_from(cached, rest)
                elif CFG.get("nav") == "root_node":
                    node = self.trie.traverse_from(self.trie.root_node, prefix)     # "from the root", spelled the other way
                else:
                    node = self.trie.traverse(prefix)
            except MissingTraversalNode:
                if cached is None:
                    raise
                self.cache.delete(prefix)          # stale cached parent (its child was pruned away): go from the root
                COUNTERS["stale_cache_fallbacks"] += 1
                continue
            except TraversedPartialPath as exc:
                node = exc.simulated_node
                COUNTERS["partial_paths_hit"] += 1
            break
        else:
            raise AssertionError("stale-cache fallback did not converge")
        if node.value:
            self.met.append((tuple(int(x) for x in prefix) + tuple(int(x) for x in node.suffix), bytes(node.value)))
        self.fog = self.fog.explore(prefix, node.sub_segments)
        if self.cache is not None:
            if node.sub_segments:
                self.cache.add(prefix, node, node.sub_segments)
            else:
                self.cache.delete(prefix)
        self.steps += 1
        return True


def _walk(evs):
    stubs.reset_caches()
    prune, use_cache = CFG["prune"], CFG["cache"]
    t, _db = hc.trie_from_state(STATE, prune)
    model = dict(MODEL)
    ever = {(mpt.nibbles_of(k), v) for k, v in model.items()}
    changed = set()
    w = _Walker(t, use_cache)
    total_nibbles = sum(2 * len(k) for k in model) + 2
    nmut = 0
    try:
        for (kind, arg) in evs:
            if kind <= 1:
                w.step(kind == 1, QUERIES[arg])
            else:
                nmut += 1
                if kind == 2:
                    k, v = KEYS[arg // 2], NEWV[arg % 2]
                    if model.get(k) != v:
                        changed.add(k)
                    t.set(k, v)
                    model[k] = v
                elif kind == 3:
                    k = KEYS[arg]
                    if k in model:
                        changed.add(k)
                    t.delete(k)
                    model.pop(k, None)
                else:
                    base = KEYS[arg]
                    for k in [k for k in model if len(k) > len(base) and k[:len(base)] == base]:
                        changed.add(k)
                        t.delete(k)
                        model.pop(k)
                for k, v in model.items():
                    ever.add((mpt.nibbles_of(k), v))
                total_nibbles += sum(2 * len(k) for k in model) + 2
        bound = 4 * total_nibbles + 8
        more = 0
        while w.step(False, ()):
            more += 1
            if more > bound:
                return _fail(f"the walk did not complete within {bound} further steps")
    except Exception as e:
        return _fail(f"the walk raised {type(e).__name__}: {e}")
    if not w.fog.is_complete:
        return _fail("fog not complete at the end of the walk")
    met = set(w.met)
    for pair in met:
        if pair not in ever:
            return _fail(f"the walk met {pair} which was never stored")
    if nmut == 0:
        want = {(mpt.nibbles_of(k), v) for k, v in MODEL.items()}
        if met != want:
            return _fail(f"walk of an unchanging trie met {sorted(met)}, contents are {sorted(want)}")
        if len(w.met) != len(met):
            return _fail("walk of an unchanging trie met a key twice")
    else:
        for k, v in MODEL.items():
            if k not in changed and (mpt.nibbles_of(k), v) not in met:
                return _fail(f"key {k.hex()} kept its value for the whole walk but was not met with it (met: {sorted(met)})")
    COUNTERS["paths"] += 1
    COUNTERS["mutations"] += nmut
    if nmut and any(k <= 1 for k, _ in evs[:1]):
        COUNTERS["nontrivial"] += 1
        if len(SAMPLES) < 2:
            SAMPLES.append({"contents": [k.hex() for k in MODEL], "schedule": evs, "prune": prune, "cache": use_cache, "steps": w.steps})
    return True


def r_walk(events: List[Tuple[int, int]]) -> bool:
    """
    reachability twin: a walk that ran into a TraversedPartialPath (structure moved under an old prefix)
    pre: _pre(events)
    post: _
    """
    before = COUNTERS["partial_paths_hit"]
    ok = h_walk(events)
    if ok and COUNTERS["partial_paths_hit"] > before:
        return False
    return ok


WARM = {
    "h_walk": lambda cfg: [([],), ([(0, 0), (3, 0)][: cfg["maxev"]],), ([(0, 0), (4, 0), (1, 1)][: cfg["maxev"]],)],
    "r_walk": lambda cfg: [([],)],
}
