"""C04 harness: non-pruning tries never lose or alter history.  One shared database holds the canonical
nodes of two contents sets M (trie A) and M2 (an independent view B / an older root); one operation,
chosen by symbolic indices, is applied to A directly or inside squash_changes while the f-th database
write fails (f symbolic, decided by the solver at each write the run reaches).

cfg: {"mi", "mi2", "tier", "kpool", "vpool", "seed", "mode": "direct"|"batch"|"batch2"|"batch_recreate"}
  batch2: a committed batch precedes the measured batch on the same trie object;
  batch_recreate: the measured batch first re-creates B's contents (nodes byte-identical to entries already in the db)
"""
from vf import stubs
from vf.oracle import mpt
from vf.props import hexcommon as hc
from vf.props import hexstep
from vf.xutil import notrace, pick

stubs.warm()

from trie import HexaryTrie  # noqa: E402

CFG: dict = {}
KEYS: list = []
VALS: list = []
MODEL: dict = {}
MODEL2: dict = {}
PRE = PRE2 = None
QS: list = []
EXPM: dict = {}
COUNTERS = {"nontrivial": 0, "paths": 0, "write_failures_fired": 0}
SAMPLES: list = []
LAST_REASON = ""
MAXFAIL = 6


def configure(cfg):
    global CFG, KEYS, VALS, MODEL, MODEL2, PRE, PRE2, QS
    CFG = dict(cfg)
    KEYS = hc.key_pool(cfg["kpool"], cfg.get("seed", 0))
    VALS = hc.value_pool(cfg["vpool"])
    fam = hexstep.family_for(cfg)
    MODEL = dict(fam[cfg["mi"]])
    MODEL2 = dict(fam[cfg["mi2"] % len(fam)])
    PRE, PRE2 = hc.canonical_state(MODEL), hc.canonical_state(MODEL2)
    qs = set(KEYS)
    for k in KEYS:
        qs.add(k + b"\x00")
        if k:
            qs.add(k[:-1])
    QS = sorted(qs)
    for k in COUNTERS:
        COUNTERS[k] = 0
    del SAMPLES[:]
    stubs.reset_caches()


def _fail(msg):
    global LAST_REASON
    LAST_REASON = msg
    return False


def _reads(t, model, what):
    for q in QS:
        try:
            got = t.get(q)
        except Exception as e:
            return f"{what}: get({q.hex()}) raised {type(e).__name__}: {e}"
        if got != model.get(q, b""):
            return f"{what}: get({q.hex()}) = {got!r}, it held {model.get(q, b'')!r}"
    return None


def _pre(kind, ki, vi, fail_at):
    if not (0 <= kind <= 3 and 0 <= ki < len(KEYS) and 0 <= vi < len(VALS)):
        return False
    if kind >= 2 and vi != 0:
        return False
    return -1 <= fail_at < MAXFAIL


def h_hist(kind: int, ki: int, vi: int, fail_at: int) -> bool:
    """
    pre: _pre(kind, ki, vi, fail_at)
    post: _
    """
    kind, ki, vi = pick(kind, 4), pick(ki, len(KEYS)), pick(vi, len(VALS))
    with notrace():      # concrete from here on, except fail_at which FailingDict asks the solver about at each write
        return _body(kind, ki, vi, fail_at)


def _body(kind, ki, vi, fail_at):
    stubs.reset_caches()
    rootA, dbA, _ = PRE
    rootB, dbB, _ = PRE2
    db = stubs.FailingDict(dbA)
    dict.update(db, dbB)
    before = dict(db)
    tA = HexaryTrie(db, rootA)
    tB = HexaryTrie(db, rootB)
    key, val = KEYS[ki], VALS[vi]
    m2 = dict(MODEL)
    if kind >= 2 or val == b"":
        m2.pop(key, None)
    else:
        m2[key] = val
    mode = CFG["mode"]
    if mode == "batch_recreate":
        m2 = dict(MODEL)
        m2.update(MODEL2)
        if kind >= 2 or val == b"":
            m2.pop(key, None)
        else:
            m2[key] = val
    roots = [(rootA, MODEL, "old root of A"), (rootB, MODEL2, "root of the other trie B")]
    if mode == "batch2":
        # an earlier, committed batch on the same trie object (fault free), then the measured batch
        k0 = KEYS[(ki + 1) % len(KEYS)]
        with tA.squash_changes() as b0:
            b0.set(k0, hc.LONG_B)
        m1 = dict(MODEL)
        m1[k0] = hc.LONG_B
        roots.append((tA.root_hash, m1, "root of A after its first batch"))
        before = dict(db)
        m2 = dict(m1)
        if kind >= 2 or val == b"":
            m2.pop(key, None)
        else:
            m2[key] = val
    cur_before = (tA.root_hash, roots[-1][1] if mode == "batch2" else MODEL)
    db.arm(fail_at)
    failed = False
    try:
        if mode in ("batch", "batch2"):
            with tA.squash_changes() as b:
                hexstep._apply(b, kind, key, val)
        elif mode == "batch_recreate":
            # the batch first writes B's contents into A (byte-identical nodes to those B already has in the shared
            # database), then performs the measured operation
            with tA.squash_changes() as b:
                for kk, vv in sorted(MODEL2.items()):
                    b.set(kk, vv)
                hexstep._apply(b, kind, key, val)
        else:
            hexstep._apply(tA, kind, key, val)
    except stubs.DbWriteFailure:
        failed = True
    except Exception as e:
        return _fail(f"operation raised {type(e).__name__}: {e}")
    db.disarm()
    # (i) append-only, content-addressed
    for k, v in before.items():
        if k not in db or db[k] != v:
            return _fail(f"database entry {k.hex()[:12]} was removed or altered")
    for k, v in db.items():
        if k not in before and mpt.keccak(v) != k:
            return _fail(f"new database entry {k.hex()[:12]} is not keyed by the keccak of its value")
    # (ii) every root ever had stays readable with exactly its contents: from fresh tries, at_root, and the other view
    for root, model, name in roots:
        r = _reads(HexaryTrie(db, root), model, name + " via a freshly opened trie")
        if r:
            return _fail(r)
        with tA.at_root(root) as snap:
            r = _reads(snap, model, name + " via at_root")
            if r:
                return _fail(r)
    r = _reads(tB, MODEL2, "the other view B")
    if r:
        return _fail(r)
    # (iii) the current root is a root with fully readable contents: the new one, or after a failed write the old one
    if failed:
        COUNTERS["write_failures_fired"] += 1
        if tA.root_hash == cur_before[0]:
            cur = cur_before[1]
        elif tA.root_hash == mpt.root_of(m2):
            cur = m2
        else:
            return _fail("after a failed database write the trie's root is neither its old nor its new root")
        r = _reads(tA, cur, "current root after a failed write")
        if r:
            return _fail(r)
        # the trie stays usable: repeating the operation now succeeds and leads to the right contents
        try:
            hexstep._apply(tA, kind, key, val)
        except Exception as e:
            return _fail(f"repeating the operation after a failed write raised {type(e).__name__}: {e}")
        m2 = dict(cur)
        if kind >= 2 or val == b"":
            m2.pop(key, None)
        else:
            m2[key] = val
    r = _reads(tA, m2, "trie A after the operation")
    if r:
        return _fail(r)
    COUNTERS["paths"] += 1
    if failed or m2 != MODEL:
        COUNTERS["nontrivial"] += 1
    if len(SAMPLES) < 2 and failed:
        SAMPLES.append({"A": {k.hex(): len(v) for k, v in MODEL.items()}, "B": {k.hex(): len(v) for k, v in MODEL2.items()},
                        "op": [kind, key.hex(), len(val)], "failed_write_index": db.nwrites - 1, "mode": CFG["mode"]})
    return True


def r_hist(kind: int, ki: int, vi: int, fail_at: int) -> bool:
    """
    reachability twin: a write failure that really fired at the second or a later write of an operation
    pre: _pre(kind, ki, vi, fail_at)
    post: _
    """
    before = COUNTERS["write_failures_fired"]
    ok = h_hist(kind, ki, vi, fail_at)
    if ok and COUNTERS["write_failures_fired"] > before and fail_at >= 1:
        return False
    return ok


WARM = {
    "h_hist": lambda cfg: [(0, 1, 1, -1), (0, 2, 2, 0), (2, 2, 0, 1)],
    "r_hist": lambda cfg: [(0, 1, 1, -1)],
}
