"""C15 - SparseMerkleProof stays in sync from streamed updates alone.  (Engine L)"""
import itertools
import sys

from vf.pylift import lrun

PROPERTY = "C15"
H = "vf.pylift.harnesses:"
ASSUMPTIONS = [
    "tracked key, update keys and prior keys are z3 bit-vectors (updates to other keys diverging at every bit position, to the tracked key itself, repeated writes and deletions are all instances of one query); the `break` in update forks one path per divergence bit and the coverage closure certifies that all are explored",
    "values / default: atoms of an uninterpreted sort or blank, length classes enumerated; keccak as injective uninterpreted functions",
    "truncation: the node-hash list is cut to every length m in [0, depth]; acceptance is compared with 'the first differing bit lies within the first m levels'",
]
BOUNDS = {
    "quick": "key_size 1: streams of 1 update after 0 or 1 prior writes and of 2 updates on a fresh tree (all kind combinations); every truncation length 0..8 of one update; update() in isolation (arbitrary branch / update hashes, no tree) for key sizes 1, 2 and 8",
    "thorough": "key_size 1: streams of <= 2 updates (all kind / length-class combinations on a fresh tree, 33-byte default after one prior write); key_size 2: streams of 1 update, truncation lengths 0..16; update() in isolation up to 16-byte keys. (3-update streams at key_size 1 and 2-update streams at key_size 2 were tried: they exceed a 50-minute budget per obligation and are not run)",
}
OUTSIDE = "in-sync-with-a-tree claims for key sizes above 2 (update() in isolation is checked up to 8 / 16 bytes), longer streams, update lists longer than the depth"


def obligations(tier):
    obs = []

    def add(name, fn, builder, t=1800, **params):
        obs.append({"name": name, "harness": H + fn, "builder": H + builder, "params": params, "timeout_s": t, "query_timeout_ms": 300000})
    sync = "proof value / branch / root equal the tree's after every streamed update"

    def streams(ks, n, dshapes, pres, vset):
        for d in dshapes:
            for pre in pres:
                for kinds in itertools.product((False, True), repeat=n):
                    choices = [vset if not kd else (0,) for kd in kinds]
                    for vs in itertools.product(*choices):
                        add(sync, "h_proof_sync", "b_proof_sync", ks=ks, dshape=d, preshapes=list(pre), vshapes=list(vs), kinds=list(kinds), t=3000)
    if tier == "quick":
        streams(1, 1, (0, 2), ([], [2]), (0, 2))
        streams(1, 2, (2,), ([],), (2,))
        for ks in (1, 2, 8):
            add("update alone (no tree): only the sibling at the first differing bit changes", "h_update_alone", "b_update_alone", ks=ks)
        for m in range(0, 9):
            add("truncated update list: accepted iff deep enough, otherwise ValidationError and proof unchanged", "h_proof_trunc", "b_proof_trunc", ks=1, dshape=0, vshape=2, m=m)
    else:
        streams(1, 1, (0, 2), ([], [2]), (0, 2, 33))
        streams(1, 2, (0, 2), ([],), (0, 2))
        streams(1, 2, (2,), ([2],), (2,))
        streams(2, 1, (0, 2), ([], [2]), (0, 2))
        for ks in (1, 2, 4, 8, 16):
            add("update alone (no tree): only the sibling at the first differing bit changes", "h_update_alone", "b_update_alone", ks=ks)
        for ks in (1, 2):
            for m in range(0, 8 * ks + 1):
                for d, v in ((0, 2), (2, 0)):
                    add("truncated update list: accepted iff deep enough, otherwise ValidationError and proof unchanged", "h_proof_trunc", "b_proof_trunc", ks=ks, dshape=d, vshape=v, m=m)
    return obs


def run(tier):
    return lrun.run_l(sys.modules[__name__], tier)
