"""C08 - traverse / traverse_from describe the canonical node at every nibble path.  (Engine X)"""
import sys

from vf import common, xengine
from vf.props import hexquery

PROPERTY = "C08"
FUNCTIONS = ["trie.hexary.HexaryTrie.traverse/traverse_from/_traverse/_traverse_from/_traverse_extension/root_node/get_node",
             "trie.utils.nodes.annotate_node/get_node_type/extract_key/key_starts_with/consume_common_prefix",
             "trie.exceptions.TraversedPartialPath.__init__/_make_simulated_node", "trie.typing.Nibbles/HexaryTrieNode"]
ASSUMPTIONS = [
    "tries are either oracle-built canonical tries of the query family's contents sets or (build=history: every second trie in quick, all in thorough) built by the real code through inserts plus an insert-and-delete of one extra pool key; the nibble path is a genuinely symbolic list of ints in 0..15 handed over as an unvalidated Nibbles instance (Nibbles() validation itself is C18's subject); branch indexing realises the nibble used as index",
    "expected node / partial-path description comes from the independent canonical tree (vf/oracle/mpt.py: describe / locate), 'blank iff no stored key starts with the path' is re-checked against the key set directly",
    "a path that ends exactly at the end of a leaf's key path is reported by py-trie as TraversedPartialPath with an empty trimmed suffix; the oracle follows that documented behaviour",
]
BOUNDS = {
    "quick": "64 tries (<=3-subsets of the 7-key pool, hashed / embedded / mixed); symbolic nibble path of length <= 8 (longest key 6 nibbles + 2); traverse_from: every split position of a symbolic path of length <= 6 on every 5th trie",
    "thorough": "379 tries (<=4-subsets x 4 value patterns), canonical and history-built; path length <= 8; traverse_from: paths <= 7 on every 6th trie",
}
OUTSIDE = "paths longer than 8 nibbles, tries with more than 4 keys, keys longer than 3 bytes"
NONTRIVIAL_RULE = "traverse: the path ends inside a leaf/extension; traverse_from: both prefix and segment non-empty"


def jobs(tier):
    seed = common.seed()
    qbase = {"tier": tier, "kpool": "K7", "seed": seed, "maxlen": 3, "lift": True, "maxnib": 8}
    n = len(hexquery.family_for(qbase))
    out = []
    for mi in range(n):
        for build in (("canonical", "history") if tier != "quick" else (("history",) if mi % 2 else ("canonical",))):
            out.append({"module": "vf.props.hexquery", "fn": "h_traverse", "cfg": dict(qbase, mi=mi, build=build), "pct": 1500, "ppt": 40})
        if mi % (5 if tier == "quick" else 6) == (3 if tier == "quick" else 1):
            out.append({"module": "vf.props.hexquery", "fn": "h_traverse_from", "cfg": dict(qbase, mi=mi, maxnib=6 if tier == "quick" else 7), "pct": 3000, "ppt": 40})
    out.append({"module": "vf.props.hexquery", "fn": "r_traverse", "cfg": dict(qbase, mi=n - 1), "pct": 300, "ppt": 40, "kind": "reach"})
    return out


def run(tier):
    return xengine.run_x(sys.modules[__name__], tier)
