"""C09 - A fog-guided walk finds everything, even while the trie changes.  (Engine X)"""
import sys

from vf import common, xengine
from vf.props import hexquery

PROPERTY = "C09"
FUNCTIONS = ["trie.fog.HexaryTrieFog.explore/nearest_unknown/nearest_right", "trie.fog.TrieFrontierCache.get/add/delete", "trie.hexary.HexaryTrie.traverse/traverse_from/set/delete",
             "trie.exceptions.TraversedPartialPath._make_simulated_node", "trie.utils.nodes.annotate_node"]
ASSUMPTIONS = [
    "walk protocol = the one of tests/core/test_hexary_trie_walk.py: pick a prefix with nearest_unknown / nearest_right (falling back to nearest_unknown on FullDirectionalVisibility), traverse from the root (trie.traverse(prefix), or trie.traverse_from(trie.root_node, prefix) in the nav=root_node configurations) or traverse_from the cached parent, on MissingTraversalNode with a cached parent drop the cache entry and retry from the root, on TraversedPartialPath use simulated_node, explore(prefix, sub_segments), maintain the cache as the tests do",
    "'always terminates' is checked as: after the schedule the walk completes within 4*(nibbles stored over time)+8 further steps",
    "the schedule (<= maxev events: step with either query and a query key from a pool, set, delete, delete-every-key-extending-k) is symbolic and exhausted by the solver; each schedule runs natively",
    "'met' = node reached at an explored prefix (or its simulated node) carries a value: key = prefix + suffix",
]
BOUNDS = {
    "quick": "8 contents sets (2-3 keys, prefix-related, hashed/embedded/mixed); prune x cache in all 4 combinations; schedules of <= 3 events with <= 1 mutation event, 2 query keys per fog query",
    "thorough": "6 (other) contents sets; schedules of <= 4 events with <= 1 mutation and of <= 3 events with <= 2 mutations; 2 query keys per fog query; all navigation configurations",
}
OUTSIDE = "longer schedules, walks interleaved with squash_changes batches, missing nodes during the walk (C07), keys outside the pools"
NONTRIVIAL_RULE = "schedule starts with a walk step and contains a mutation"


def jobs(tier):
    seed = common.seed()
    qbase = {"tier": "quick", "kpool": "K7", "seed": seed, "maxlen": 3, "lift": False}
    fam = hexquery.family_for(qbase)
    idx = [i for i, m in enumerate(fam) if len(m) >= 2]
    idx = idx[::max(1, len(idx) // 8)][:8] if tier == "quick" else idx[3::max(1, len(idx) // 6)][:6]
    out = []
    for mi in idx:
        for prune in (False, True):
            for cache in (False, True):
                cfg = dict(qbase, mi=mi, prune=prune, cache=cache, maxev=3 if tier == "quick" else 4, maxmut=1)
                cfg["tier"] = tier if tier == "quick" else "quick"      # family is the quick one in both tiers
                cfg["wtier"] = "quick"
                if not cache and (tier != "quick" or mi % 2):
                    out.append({"module": "vf.props.hexwalk", "fn": "h_walk", "cfg": dict(cfg, nav="root_node"), "pct": 3000, "ppt": 60})
                    if tier == "quick":
                        continue
                if tier != "quick":      # second shape of schedule: shorter, but two mutation events
                    out.append({"module": "vf.props.hexwalk", "fn": "h_walk", "cfg": dict(cfg, maxev=3, maxmut=2), "pct": 3000, "ppt": 60})
                out.append({"module": "vf.props.hexwalk", "fn": "h_walk", "cfg": cfg, "pct": 3000, "ppt": 60})
    out.append({"module": "vf.props.hexwalk", "fn": "r_walk", "cfg": dict(qbase, mi=idx[-1], prune=True, cache=True, maxev=3, maxmut=1), "pct": 900, "ppt": 60, "kind": "reach"})
    return out


def run(tier):
    return xengine.run_x(sys.modules[__name__], tier)
