"""Shared pieces of the HexaryTrie harnesses (Engine X): key/value pools, the family of canonical
pre-states, construction of a trie *in* a canonical state from the oracle (not from a history), and
an independent reachability walker over the raw RLP in a database.

Inductive use (DESIGN 3.1): the Yellow-Paper trie is a function of the contents alone, so the state
(root, reachable db, and for pruning tries the whole db and the reference counts) after ANY history
that leads to contents M is the canonical state of M -- provided every single step maps canonical
state to canonical state.  The step harnesses check exactly that, from every M of the family and for
every operation of the pool; together with the empty trie as base case this covers histories of any
length whose contents stay inside the family.
"""
import itertools
from collections import defaultdict

from vf.oracle import mpt

# ---- key pools -------------------------------------------------------------------------------
K7 = [b"", b"\x12", b"\x12\x34", b"\x12\x35", b"\x12\x34\x56", b"\x13", b"\x20\x00"]
K10 = K7 + [b"\x12\x34\x56\x78", b"\x1f", b"\x12\x30"]
# rotated pools (VERIF_SEED): same shape classes, other nibbles
_ROT = [
    lambda k: k,
    lambda k: bytes(((b >> 4) * 3 % 16) * 16 + ((b & 15) * 3 % 16) for b in k),     # nibble * 3 mod 16 (a bijection)
    lambda k: bytes(((b >> 4) * 7 % 16) * 16 + ((b & 15) * 7 % 16) for b in k),
]


def key_pool(name, seed=0):
    base = {"K7": K7, "K10": K10}[name]
    f = _ROT[seed % 3]
    return [f(k) for k in base]


# ---- value pool ------------------------------------------------------------------------------
LONG_A = b"A" * 33            # two keys that store LONG_A below the same kind of leaf share a hashed node
LONG_B = b"B" * 33


def value_pool(name):
    """index 0 is always b'' (= delete). Lengths 27..30 put a leaf with a 2/1/0-nibble path at an RLP
    length of exactly 31, 32 and 33 bytes; 4+5 byte values under sibling leaves make a 32-byte branch;
    b'\\x80' is the shortest string whose RLP is 2 bytes."""
    if name == "V4":
        return [b"", b"\x01", LONG_A, b"x" * 29]
    if name == "V7":
        return [b"", b"\x01", b"\x80", LONG_A, LONG_B, b"x" * 29, b"y" * 4]
    if name == "V12":
        return [b"", b"\x01", b"\x80", LONG_A, LONG_B, b"s" * 27, b"t" * 28, b"x" * 29, b"u" * 30, b"y" * 4, b"z" * 5, b"w" * 60]
    raise KeyError(name)


# ---- families of contents ----------------------------------------------------------------------
SPECIAL_SETS = [
    (2, 3, 5), (1, 2, 3), (4, 3, 1), (0, 1, 2), (2, 3, 4), (2, 3, 6), (4, 3, 5, 6), (0, 2, 3, 5), (1, 2, 3, 4),
]
ASSIGN_SMALL = [b"\x01", LONG_A]


def family(tier, keys):
    """list of models (dict key -> value). Deterministic.
    quick:    all <=2-subsets of the pool x {1 byte, 33 bytes}^size  + the special 3/4-key sets x 4 patterns
    thorough: all <=2-subsets x {1 byte, 33 bytes, 29 bytes}^size, all 3-subsets of the first 7 keys x 4 patterns,
              the special sets x 4 patterns"""
    out = []
    n = len(keys)
    if tier == "quick":
        vals = ASSIGN_SMALL
    else:
        vals = [b"\x01", LONG_A, b"x" * 29]
    for size in range(0, 3):
        for sub in itertools.combinations(range(n), size):
            for assign in itertools.product(vals, repeat=size):
                out.append({keys[i]: v for i, v in zip(sub, assign)})
    specials = list(SPECIAL_SETS)
    if tier != "quick":
        specials += [s for s in itertools.combinations(range(min(n, 7)), 3) if s not in specials]
    for sub in specials:
        if max(sub) >= n:
            continue
        for pat in ([vals[0]] * len(sub), [vals[1]] * len(sub), [vals[i % 2] for i in range(len(sub))], [vals[(i + 1) % 2] for i in range(len(sub))]):
            m = {keys[i]: v for i, v in zip(sub, pat)}
            if m not in out:
                out.append(m)
    # contents with keys outside the operation pool: branches with three children (no collapse when one goes),
    # identical hashed leaves below different parents
    if n >= 4 and len(keys[2]) == 2 and len(keys[3]) == 2:
        k3 = keys[2][:-1] + bytes([keys[2][-1] ^ 0x02])            # a third sibling of keys[2] / keys[3]
        far = bytes([keys[2][0] ^ 0x30]) + keys[2][1:]              # same suffix as keys[2] below another top-level slot
        other = bytes([keys[2][0] ^ 0x70, 0])
        for m in ({keys[2]: LONG_A, keys[3]: LONG_A, k3: b"\x01"}, {keys[2]: b"\x01", keys[3]: LONG_A, k3: LONG_A},
                  {keys[2]: LONG_A, far: LONG_A, other: b"\x01"}, {keys[2]: LONG_A, keys[3]: LONG_B, k3: LONG_A, far: LONG_A}):
            if m not in out:
                out.append(m)
    return out


# ---- canonical state ---------------------------------------------------------------------------
def canonical_state(model):
    """(root, db dict, ref_count dict) of the Yellow-Paper trie of `model`, from the oracle"""
    return mpt.root_of(model), mpt.db_of(model), mpt.ref_counts(model)


def make_trie(model, prune, dbcls=dict):
    return trie_from_state(canonical_state(model), prune, dbcls)


def trie_from_state(state, prune, dbcls=dict):
    from trie import HexaryTrie
    root, db, rc = state
    d = dbcls(db)
    if prune:
        t = HexaryTrie(d, root, prune=True, ref_count=defaultdict(int, rc))
    else:
        t = HexaryTrie(d, root)
    return t, d


# ---- independent walker over raw RLP -----------------------------------------------------------
def rlp_decode(b):
    """minimal RLP decoder (lists / strings), independent of pyrlp"""
    def item(i):
        p = b[i]
        if p < 0x80:
            return b[i:i + 1], i + 1
        if p < 0xB8:
            n = p - 0x80
            return b[i + 1:i + 1 + n], i + 1 + n
        if p < 0xC0:
            ll = p - 0xB7
            n = int.from_bytes(b[i + 1:i + 1 + ll], "big")
            return b[i + 1 + ll:i + 1 + ll + n], i + 1 + ll + n
        if p < 0xF8:
            n = p - 0xC0
            start = i + 1
        else:
            ll = p - 0xF7
            n = int.from_bytes(b[i + 1:i + 1 + ll], "big")
            start = i + 1 + ll
        out, j = [], start
        while j < start + n:
            x, j = item(j)
            out.append(x)
        return out, start + n
    v, end = item(0)
    assert end == len(b)
    return v


def reachable(db, root):
    """hash -> number of references, for every stored node reachable from root (root counts 1).
    Raises KeyError(hash) when a referenced node is absent."""
    counts = {}
    if root == mpt.BLANK_ROOT:
        return counts
    stack = [root]
    while stack:
        ref = stack.pop()
        if isinstance(ref, list):
            node = ref
        else:
            if ref == b"":
                continue
            if len(ref) < 32:
                raise ValueError("reference shorter than 32 bytes that is not an embedded node")
            counts[ref] = counts.get(ref, 0) + 1
            node = rlp_decode(db[ref])
        if len(node) == 17:
            stack.extend(node[:16])
        elif len(node) == 2:
            flag = node[0][0] >> 4
            if flag in (0, 1):       # extension
                stack.append(node[1])
        elif node == b"":
            pass
        else:
            raise ValueError("malformed node")
    return counts


def nz(d):
    return {k: v for k, v in d.items() if v}
