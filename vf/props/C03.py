"""C03 - Hexary Merkle proofs are complete and sound.  (Engine X)"""
import sys

from vf import common, xengine
from vf.props import hexquery

PROPERTY = "C03"
FUNCTIONS = ["trie.hexary.HexaryTrie.get_proof/_get_proof/get_from_proof/at_root/get/_get/_traverse_from/_set_raw_node/get_node"]
ASSUMPTIONS = [
    "completeness: the key q is a genuinely symbolic byte string on every trie of the query family (canonical, oracle-built)",
    "soundness: the corruption (kind in {withhold-only, swap neighbours, duplicate, replace by the node at the same depth of another trie's proof, alter one node's content (other value / child pointer) keeping it well formed}, position, withheld subset as a bit mask, true root vs. the other trie's root) and the key (pool keys, their prefixes and extensions) are symbolic ints exhausted by the path search; the forged proof then runs concretely",
    "claimed roots are 32-byte hashes of tries in the family; offered nodes are well-formed (taken from real proofs); no keccak collisions",
]
BOUNDS = {
    "quick": "completeness: 64 tries, symbolic q len <= 3.  soundness: every 4th trie; every withheld subset of the first 4 proof nodes; swap / duplicate / foreign-replace at each of 4 positions combined with <=1 withheld node; true root and another trie's root; ~10 keys (stored keys, their prefixes and extensions, foreign keys)",
    "thorough": "completeness: every 2nd of 379 tries, len <= 4.  soundness: every 6th trie, withheld subsets / positions over the first 6 proof nodes",
}
OUTSIDE = "alterations other than the listed kinds (e.g. bit flips inside a key path); roots that are not 32 bytes; keys longer than 4 bytes"
NONTRIVIAL_RULE = "completeness: proof of a non-empty absent key; soundness: the corrupted proof was rejected with BadTrieProof"


def jobs(tier):
    seed = common.seed()
    qbase = {"tier": tier, "kpool": "K7", "seed": seed, "maxlen": 3 if tier == "quick" else 4, "lift": True}
    n = len(hexquery.family_for(qbase))
    out = []
    for mi in range(n):
        if tier == "quick" or mi % 2 == 0:
            out.append({"module": "vf.props.hexquery", "fn": "h_proof", "cfg": dict(qbase, mi=mi), "pct": 1200, "ppt": 30})
        if mi % (4 if tier == "quick" else 6) == 1:
            out.append({"module": "vf.props.hexquery", "fn": "h_forge", "cfg": dict(qbase, mi=mi, other=True), "pct": 2400, "ppt": 30})
    out.append({"module": "vf.props.hexquery", "fn": "r_proof", "cfg": dict(qbase, mi=n - 1), "pct": 300, "ppt": 30, "kind": "reach"})
    out.append({"module": "vf.props.hexquery", "fn": "r_forge", "cfg": dict(qbase, mi=n - 2, other=True), "pct": 600, "ppt": 30, "kind": "reach"})
    return out


def run(tier):
    return xengine.run_x(sys.modules[__name__], tier)
