"""C11 harness: HexaryTrieFog against the set model R-fog.

Pre-state: the fog reached by ONE call explore((), segs) from a fresh fog - any antichain of prefixes is
reachable this way, so the pre-state is arbitrary within the bound without touching internals.  `segs` is
the job's configuration (a subset of the segment universe); the second operation, its arguments and the
query key are symbolic indices exhausted by the solver; nibbles are realised by the Nibble enum anyway, so
the fog code runs natively on each path.
"""
import itertools

from vf.xutil import notrace, pick

from trie.exceptions import FullDirectionalVisibility, PerfectVisibility
from trie.fog import HexaryTrieFog
from eth_utils import ValidationError

ALPHA = [0, 1, 2, 15]
CFG: dict = {}
U: list = []          # segment universe for the initial exploration
U2: list = []         # smaller universe for the second operation
SLISTS: list = []
XLISTS: list = []
QUERIES: list = []
SEGS: list = []
P: list = []
FOG0 = None
F0 = None
COUNTERS = {"nontrivial": 0, "paths": 0, "rejections": 0}
SAMPLES: list = []
LAST_REASON = ""


def universe(maxlen):
    out = []
    for n in range(maxlen + 1):
        out += list(itertools.product(ALPHA, repeat=n))
    return out


def configs(tier):
    """all subsets of size <= k of the universe (as index tuples)"""
    u = universe(2)
    k = 3 if tier == "quick" else 4
    out = []
    for size in range(k + 1):
        out += list(itertools.combinations(range(len(u)), size))
    return out


# ---- the model ----------------------------------------------------------------------------------
def nested_or_dup(segs):
    segs = [tuple(s) for s in segs]
    if len(set(segs)) != len(segs):
        return True
    for a in segs:
        for b in segs:
            if a != b and len(a) < len(b) and b[:len(a)] == a:
                return True
    return False


def m_explore(F, p, segs):
    """-> new set, or None when the call must be refused"""
    p = tuple(p)
    if p not in F or nested_or_dup(segs):
        return None
    return (F - {p}) | {p + tuple(s) for s in segs}


def m_mark(F, ps):
    G = set(F)
    for p in ps:
        p = tuple(p)
        if p not in G:
            return None
        G.remove(p)
    return frozenset(G)


def container(F, q):
    for f in F:
        if q[:len(f)] == f:
            return f
    return None


def is_antichain(F):
    return not nested_or_dup(list(F))


def fog_set(fog):
    """observe the unexplored set through the public API only: serialize() + repeated nearest_right"""
    out = []
    g = fog
    while True:
        try:
            p = g.nearest_right(())
        except PerfectVisibility:
            break
        out.append(tuple(int(x) for x in p))
        g = g.mark_all_complete([p])
    return frozenset(out)


def configure(cfg):
    global CFG, U, U2, SLISTS, QUERIES, SEGS, P, FOG0, F0
    CFG = dict(cfg)
    U = universe(2)
    SEGS = [U[i] for i in cfg["segs"]]
    U2 = [(), (0,), (1,), (0, 1), (1, 15), (0, 1, 2)]
    SLISTS = [[], [(0,), (1,)], [(2, 2)]]
    global XLISTS
    # sub-segment lists with three and four different lengths, nested below a segment that is not the shortest,
    # duplicates, and valid mixed-length lists (branch / extension / leaf shaped and unusual ones)
    XLISTS = [[(0,), (1, 2), (1, 2, 0)], [(0,), (1, 2), (1, 2, 0), (2, 2, 2, 2)], [(1,), (1,)], [(0,), (0, 1)], [(0,), (1, 2), (2, 0, 1)],
              [(0, 1), (0, 1, 2, 15)], [(15,), (2, 1), (2, 1, 1, 1), (0, 0, 0)], [(0,), (1,), (2,), (15,)], [(1, 2, 0), (1, 2), (0,)],
              [(0, 0, 0, 0), (1, 1, 1), (2, 2), (15,)], [()], [(), (1,)], [(1, 15)],
              [(1,), (2, 15), (2, 15)], [(0, 1), (0, 1), (2,)], [(15,), (15, 0)], [(2,), (0, 0), (15, 1, 1)]]
    QUERIES = universe(2) + [(0, 1, 2), (1, 15, 15), (15, 15, 15), (0, 0, 0)]
    F0 = m_explore(frozenset({()}), (), SEGS)
    try:
        FOG0 = HexaryTrieFog().explore((), SEGS)
    except ValidationError:
        FOG0 = None
    cands = sorted(F0) if F0 is not None else []
    extra = [x for x in [(), (0,), (1, 2), (15, 15, 15)] if x not in cands]
    P = (cands + extra)[:5]
    for k in COUNTERS:
        COUNTERS[k] = 0
    del SAMPLES[:]


def _fail(msg):
    global LAST_REASON
    LAST_REASON = msg
    return False


def _same(fog, F, what):
    got = fog_set(fog)
    if got != frozenset(F):
        return f"{what}: fog holds {sorted(got)}, model holds {sorted(F)}"
    if not is_antichain(got):
        return f"{what}: an unexplored prefix starts with another one: {sorted(got)}"
    if fog.is_complete != (len(F) == 0):
        return f"{what}: is_complete is {fog.is_complete} with {len(F)} prefixes left"
    try:
        back = HexaryTrieFog.deserialize(fog.serialize())
    except Exception as e:
        return f"{what}: serialize/deserialize raised {type(e).__name__}: {e}"
    if not (back == fog) or fog_set(back) != got:
        return f"{what}: serialize/deserialize does not round-trip"
    return None


def _pre(kind, a, b, c, d):
    if not 0 <= kind <= 4:
        return False
    if kind == 4:
        return 0 <= a < len(P) and 0 <= b < len(XLISTS) and c == 0 and d == 0
    if kind == 0:
        return 0 <= a < len(P) and 0 <= b <= len(U2) and 0 <= c <= len(U2) and d == 0
    if kind == 1:
        return 0 <= a <= len(P) and 0 <= b <= len(P) and c == 0 and d == 0
    if kind == 2:
        return 0 <= a < len(P) and 0 <= b < len(P) and 0 <= c < len(SLISTS) and 0 <= d < len(SLISTS)
    return 0 <= a < len(QUERIES) and 0 <= b <= 1 and c == 0 and d == 0


def h_fog(kind: int, a: int, b: int, c: int, d: int) -> bool:
    """
    pre: _pre(kind, a, b, c, d)
    post: _
    """
    kind = pick(kind, 5)
    bounds = [(len(P), len(U2) + 1, len(U2) + 1, 1), (len(P) + 1, len(P) + 1, 1, 1), (len(P), len(P), len(SLISTS), len(SLISTS)), (len(QUERIES), 2, 1, 1),
              (len(P), len(XLISTS), 1, 1)][kind]
    a, b, c, d = pick(a, bounds[0]), pick(b, bounds[1]), pick(c, bounds[2]), pick(d, bounds[3])
    with notrace():
        return _body(kind, a, b, c, d)


def _body(kind, a, b, c, d):
    # the initial exploration itself
    if F0 is None:
        if FOG0 is not None:
            return _fail(f"explore((), {SEGS}) with duplicate / nested sub-segments was accepted")
        COUNTERS["paths"] += 1
        COUNTERS["rejections"] += 1
        return True
    if FOG0 is None:
        return _fail(f"explore((), {SEGS}) was refused although the sub-segments are distinct and not nested")
    fog, F = FOG0, F0
    snapshot = fog.serialize()
    r = _same(fog, F, "after the initial exploration")
    if r:
        return _fail(r)
    nontrivial = False
    if kind in (0, 4):
        p = P[a]
        segs = [U2[i - 1] for i in (b, c) if i > 0] if kind == 0 else XLISTS[b]
        exp = m_explore(F, p, segs)
        try:
            g = fog.explore(p, segs)
        except ValidationError:
            if exp is not None:
                return _fail(f"explore({p}, {segs}) refused on {sorted(F)}")
            COUNTERS["rejections"] += 1
            g = None
        except Exception as e:
            return _fail(f"explore({p}, {segs}) raised {type(e).__name__}: {e}")
        if g is not None:
            if exp is None:
                return _fail(f"explore({p}, {segs}) accepted on {sorted(F)} (unknown prefix or duplicate/nested sub-segments)")
            r = _same(g, exp, f"after explore({p}, {segs})")
            if r:
                return _fail(r)
            nontrivial = True
    elif kind == 1:
        ps = [P[i - 1] for i in (a, b) if i > 0]
        exp = m_mark(F, ps)
        try:
            g = fog.mark_all_complete(ps)
        except ValidationError:
            if exp is not None:
                return _fail(f"mark_all_complete({ps}) refused on {sorted(F)}")
            COUNTERS["rejections"] += 1
            g = None
        except Exception as e:
            return _fail(f"mark_all_complete({ps}) raised {type(e).__name__}: {e}")
        if g is not None:
            if exp is None:
                return _fail(f"mark_all_complete({ps}) accepted on {sorted(F)}")
            r = _same(g, exp, f"after mark_all_complete({ps})")
            if r:
                return _fail(r)
            # equivalent to exploring each prefix with no continuation
            h = fog
            for p in ps:
                h = h.explore(p, ())
            if not (h == g):
                return _fail("mark_all_complete differs from successive explore(p, ())")
            nontrivial = True
    elif kind == 2:
        p1, p2, s1, s2 = P[a], P[b], SLISTS[c], SLISTS[d]
        if p1 != p2 and p1 in F and p2 in F and not nested_or_dup(s1) and not nested_or_dup(s2):
            try:
                x = fog.explore(p1, s1).explore(p2, s2)
                y = fog.explore(p2, s2).explore(p1, s1)
            except Exception as e:
                return _fail(f"independent explorations raised {type(e).__name__}: {e}")
            if not (x == y) or fog_set(x) != fog_set(y):
                return _fail(f"explorations of {p1} and {p2} do not commute")
            exp = m_explore(m_explore(F, p1, s1), p2, s2)
            r = _same(x, exp, "after two independent explorations")
            if r:
                return _fail(r)
            nontrivial = True
    else:
        q = QUERIES[a]
        right = bool(b)
        cont = container(F, q)
        bigger = sorted(f for f in F if f > q)
        smaller = sorted(f for f in F if f <= q)
        try:
            got = tuple(int(x) for x in (fog.nearest_right(q) if right else fog.nearest_unknown(q)))
        except PerfectVisibility:
            if F:
                return _fail(f"PerfectVisibility raised although {sorted(F)} is unexplored")
            got = None
        except FullDirectionalVisibility:
            if not right:
                return _fail("nearest_unknown raised FullDirectionalVisibility")
            if not F or cont is not None or bigger:
                return _fail(f"FullDirectionalVisibility for key {q} although something lies to the right / contains it: {sorted(F)}")
            got = None
        except Exception as e:
            return _fail(f"nearest query raised {type(e).__name__}: {e}")
        if got is not None:
            if got not in F:
                return _fail(f"nearest query for {q} returned {got}, not a member of {sorted(F)}")
            if cont is not None:
                if got != cont:
                    return _fail(f"nearest query for {q} returned {got} although {cont} contains the key")
            elif right:
                if not bigger or got != bigger[0]:
                    return _fail(f"nearest_right({q}) returned {got}, closest to the right is {bigger[:1]}")
            else:
                adj = set(bigger[:1]) | set(smaller[-1:])
                if got not in adj:
                    return _fail(f"nearest_unknown({q}) returned {got}, adjacent prefixes are {sorted(adj)}")
            nontrivial = True
        elif not F:
            nontrivial = True
    # immutability of the receiver, whatever happened
    if fog.serialize() != snapshot or fog_set(fog) != frozenset(F):
        return _fail("the receiver fog was modified by the call")
    COUNTERS["paths"] += 1
    if nontrivial:
        COUNTERS["nontrivial"] += 1
        if len(SAMPLES) < 2:
            SAMPLES.append({"fog": sorted(F), "op": ["explore", "mark_all_complete", "commute", "nearest", "explore-mixed-lengths"][kind], "args": [a, b, c, d]})
    return True


def r_fog(kind: int, a: int, b: int, c: int, d: int) -> bool:
    """
    reachability twin: a refused call (unknown prefix or nested sub-segments) on a non-empty fog
    pre: _pre(kind, a, b, c, d)
    post: _
    """
    before = COUNTERS["rejections"]
    ok = h_fog(kind, a, b, c, d)
    if ok and COUNTERS["rejections"] > before and F0:
        return False
    return ok


WARM = {
    "h_fog": lambda cfg: [(0, 0, 1, 2, 0), (1, 1, 0, 0, 0), (2, 0, 1, 1, 2), (3, 3, 1, 0, 0), (3, 5, 0, 0, 0), (4, 0, 0, 0, 0), (4, 0, 4, 0, 0)],
    "r_fog": lambda cfg: [(3, 0, 0, 0, 0)],
}
