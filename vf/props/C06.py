"""C06 - Pruning is exact: database holds precisely the live nodes, counts are true.  (Engine X)

Step harness on pruning tries: from the canonical state (db = exactly the hashed nodes of the Yellow
Paper trie + root, ref_count = true reference counts, both from the independent oracle) of every
contents set of the family, every pool operation (direct, or inside a one-operation squash_changes batch)
must lead to the canonical state of the updated contents: db equal as a dict, non-zero ref counts equal,
regenerate_ref_count equal, everything reachable.  Value pool contains two equal 33-byte values (shared
hashed leaves, count 2), threshold values and a no-op update for every stored key.
Plus the squash_changes harness (hexbatch) on pruning tries: batches of <=2 (3) operations, committed or left
by an exception after any operation, then one more direct write: db / ref counts exact each time.
"""
import sys

from vf import common, xengine
from vf.props import hexstep, hexbatch

PROPERTY = "C06"
FUNCTIONS = ["trie.hexary.HexaryTrie._prune_on_success/_prune_node/_complete_pruning/_set_db_value/_persist_node/_set_root_node/_set_raw_node/regenerate_ref_count/"
             "_normalize_branch_node/_delete_kv_node/_delete_branch_node/_set_kv_node/_set_branch_node/squash_changes", "trie.utils.db.ScratchDB"]
ASSUMPTIONS = [
    "canonical pre-states are built by the independent oracle (db_of / ref_counts) and handed to HexaryTrie(db, root, prune=True, ref_count=...); the step check makes the canonical state an inductive invariant of every history whose contents stay in the family",
    "stored keys/values from finite pools chosen by symbolic indices; real keccak/pyrlp on concrete bytes",
]
BOUNDS = {
    "quick": "135 contents sets (<=2-subsets of 7 keys x {1B,33B} + 9 special 3/4-key sets); ops {set,[]=,delete,del} x 7 keys x 7 values; direct and one-op batch alternate over the sets",
    "thorough": "all <=3-subsets of the 10-key pool x 3 value classes; 12-value pool; direct and batch for every set",
}
OUTSIDE = "batches longer than 2 (quick) / 3 (thorough) operations, keys outside the pools"
NONTRIVIAL_RULE = "the operation changed the contents"


def jobs(tier):
    seed = common.seed()
    configs = [(True, "direct"), (True, "batch")]
    checks = ["exact", "reach", "root"]
    if tier == "quick":
        out = hexstep.step_jobs(tier, checks, "K7", "V7", seed, configs, lambda mi, ci: mi % 2 == ci or mi >= 99)
    else:
        out = hexstep.step_jobs(tier, checks, "K10", "V12", seed, configs, lambda mi, ci: mi % 2 == ci)
    # multi-operation batches on a pruning trie, committed or aborted by an exception, then a later direct write
    out += hexbatch.batch_jobs(tier, ["exact", "usable"], seed, [True], exits="all")
    if tier != "quick":      # symbolic value content: the solver explores equal / unequal to the stored long value (shared vs unshared leaf)
        out += hexstep.symval_jobs(tier, ["root", "exact"], seed, [True])
    return out


def run(tier):
    return xengine.run_x(sys.modules[__name__], tier)
