"""Symbolic-query harnesses on tries that are put into the canonical state of a contents set M:
the query (lookup key / nibble path / successor key) is a genuinely symbolic byte string or nibble list,
the solver splits it exactly where the trie's structure distinguishes keys.  Used by C01 (lookups),
C03 (proofs), C08 (traverse), C10 (iterator).

cfg: {"mi": index, "tier", "kpool", "seed", "maxlen": bytes, "lift": bool}
"""
from typing import List  # noqa: F401

from vf import stubs
from vf.oracle import mpt
from vf.props import hexcommon as hc
from vf.xutil import concrete

stubs.warm()

from trie import HexaryTrie  # noqa: E402

CFG: dict = {}
MODEL: dict = {}
ITEMS: list = []
STATE = None
COUNTERS = {"nontrivial": 0, "paths": 0}
SAMPLES: list = []
LAST_REASON = ""
_FAM: dict = {}


def family_for(cfg):
    key = (cfg["tier"], cfg["kpool"], cfg.get("seed", 0), cfg.get("fam", "std"))
    if key not in _FAM:
        keys = hc.key_pool(cfg["kpool"], cfg.get("seed", 0))
        _FAM[key] = query_family(cfg["tier"], keys)
    return _FAM[key]


def query_family(tier, keys):
    """contents sets for query harnesses: richer shapes than the step family (up to 4 keys), fewer value
    variants: all-short (everything embedded), all-long (everything hashed), mixed."""
    import itertools
    out = []
    n = len(keys)
    short, long_ = b"\x01", hc.LONG_A
    sizes = (0, 1, 2, 3) if tier == "quick" else (0, 1, 2, 3, 4)
    for size in sizes:
        for sub in itertools.combinations(range(n), size):
            pats = [[long_] * size, [short] * size] if size else [[]]
            if size >= 2:
                pats.append([(long_ if i % 2 else short) for i in range(size)])
            for pat in pats:
                out.append({keys[i]: v for i, v in zip(sub, pat)})
    return out


def configure(cfg):
    global CFG, MODEL, ITEMS, STATE
    CFG = dict(cfg)
    MODEL = dict(family_for(cfg)[cfg["mi"]])
    ITEMS = sorted(MODEL.items())
    STATE = hc.canonical_state(MODEL)
    if cfg.get("lift", True):
        stubs.lift_tables()
    COUNTERS["nontrivial"] = 0
    COUNTERS["paths"] = 0
    del SAMPLES[:]
    stubs.reset_caches()


def _fail(msg):
    global LAST_REASON
    LAST_REASON = msg
    return False


def fresh_trie(dbcls=dict):
    root, db, _rc = STATE
    d = dbcls(db)
    return HexaryTrie(d, root), d


def spec_get(q):
    """M.get(q, b'') by linear scan (a dict lookup would realise a symbolic q)"""
    exp = b""
    for k, v in ITEMS:
        if q == k:
            exp = v
    return exp


# ------------------------------------------------------------------------------- C01: lookups
def h_lookup(q: bytes) -> bool:
    """
    pre: len(q) <= CFG["maxlen"]
    post: _
    """
    stubs.reset_caches()
    t, _db = fresh_trie()
    try:
        got = t.get(q)
        ex = t.exists(q)
        inn = q in t
        got2 = t[q]
    except Exception as e:
        return _fail(f"lookup raised {type(e).__name__}: {e}")
    exp = spec_get(q)
    if got != exp or got2 != exp:
        return _fail(f"get returned {got!r}, contents say {exp!r}")
    if ex != (exp != b"") or inn != ex:
        return _fail("exists / in disagree with the contents")
    COUNTERS["paths"] += 1
    if exp == b"" and len(q) > 0:
        COUNTERS["nontrivial"] += 1
    if len(SAMPLES) < 2:
        SAMPLES.append({"contents": {k.hex(): len(v) for k, v in ITEMS}, "query": concrete(q).hex(), "result_len": len(concrete(got))})
    return True


def r_lookup(q: bytes) -> bool:
    """
    reachability twin: an absent key that is a proper prefix of a stored key is looked up
    pre: len(q) <= CFG["maxlen"]
    post: _
    """
    ok = h_lookup(q)
    if ok and spec_get(q) == b"":
        for k, _v in ITEMS:
            if len(k) > len(q) and k[:len(q)] == q:
                return False
    return ok


WARM = {
    "h_lookup": lambda cfg: [(b"\x12",), (b"",), (b"\x12\x34",)],
    "r_lookup": lambda cfg: [(b"\xff",)],
}
