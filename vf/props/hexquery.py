"""Symbolic-query harnesses on tries that are put into the canonical state of a contents set M:
the query (lookup key / nibble path / successor key) is a genuinely symbolic byte string or nibble list,
the solver splits it exactly where the trie's structure distinguishes keys.  Used by C01 (lookups),
C03 (proofs), C08 (traverse), C10 (iterator).

cfg: {"mi": index, "tier", "kpool", "seed", "maxlen": bytes, "lift": bool}
"""
from typing import List  # noqa: F401

from vf import stubs
from vf.oracle import mpt
from vf.props import hexcommon as hc
from vf.xutil import concrete

stubs.warm()

from trie import HexaryTrie  # noqa: E402

CFG: dict = {}
MODEL: dict = {}
ITEMS: list = []
STATE = None
TREE = None
COUNTERS = {"nontrivial": 0, "paths": 0}
SAMPLES: list = []
LAST_REASON = ""
_FAM: dict = {}


def family_for(cfg):
    key = (cfg["tier"], cfg["kpool"], cfg.get("seed", 0), cfg.get("fam", "std"))
    if key not in _FAM:
        keys = hc.key_pool(cfg["kpool"], cfg.get("seed", 0))
        _FAM[key] = query_family(cfg["tier"], keys)
    return _FAM[key]


def query_family(tier, keys):
    """contents sets for query harnesses, up to 3 (quick) / 4 (thorough) keys.  Value patterns: all-long
    (everything hashed), all-short (everything embedded in the root), mixed.  Quick: every <=3-subset of
    the pool once, the pattern rotating with the subset index (64 tries for 7 keys); thorough: every
    pattern for every <=4-subset."""
    import itertools
    out = []
    n = len(keys)
    short, long_ = b"\x01", hc.LONG_A
    sizes = (0, 1, 2, 3) if tier == "quick" else (0, 1, 2, 3, 4)
    idx = 0
    for size in sizes:
        for sub in itertools.combinations(range(n), size):
            pats = [[long_] * size, [short] * size] if size else [[]]
            if size >= 2:
                pats.append([(long_ if i % 2 else short) for i in range(size)])
                pats.append([(short if i % 2 else long_) for i in range(size)])
            if tier == "quick":
                pats = [pats[idx % len(pats)]]
            idx += 1
            for pat in pats:
                out.append({keys[i]: v for i, v in zip(sub, pat)})
    return out


def configure(cfg):
    global CFG, MODEL, ITEMS, STATE
    CFG = dict(cfg)
    MODEL = dict(family_for(cfg)[cfg["mi"]])
    ITEMS = sorted(MODEL.items())
    STATE = hc.canonical_state(MODEL)
    if cfg.get("build") == "history":
        # the trie is produced by the real code through a history with inserts of M + one extra pool key and
        # the deletion of that key again (exercises split + collapse); contents are M again
        keys = hc.key_pool(cfg["kpool"], cfg.get("seed", 0))
        extras = [k for k in keys if k not in MODEL]
        db = {}
        t = HexaryTrie(db)
        order = sorted(MODEL, reverse=bool(cfg["mi"] % 2))
        x = extras[cfg["mi"] % len(extras)] if extras else None
        for i, k in enumerate(order):
            t.set(k, MODEL[k])
            if x is not None and i == 0:
                t.set(x, hc.LONG_B if cfg["mi"] % 3 else b"\x02")
        if x is not None:
            if not order:
                t.set(x, hc.LONG_B)
            t.delete(x)
        STATE = (t.root_hash, dict(db), None)
    global TREE
    TREE = mpt.tree_of(MODEL)
    if TREE is not None:
        mpt.ref(TREE)       # fills the per-node encoding caches natively
    if cfg.get("lift", True):
        stubs.lift_tables()
    COUNTERS["nontrivial"] = 0
    COUNTERS["paths"] = 0
    del SAMPLES[:]
    stubs.reset_caches()
    if cfg.get("other"):
        _setup_other()
    global MAXP
    MAXP = 4 if cfg["tier"] == "quick" else 6


def _fail(msg):
    global LAST_REASON
    LAST_REASON = msg
    return False


def fresh_trie(dbcls=dict):
    root, db, _rc = STATE
    d = dbcls(db)
    return HexaryTrie(d, root), d


def spec_get(q):
    """M.get(q, b'') by linear scan (a dict lookup would realise a symbolic q)"""
    exp = b""
    for k, v in ITEMS:
        if q == k:
            exp = v
    return exp


# ------------------------------------------------------------------------------- C01: lookups
def h_lookup(q: bytes) -> bool:
    """
    pre: len(q) <= CFG["maxlen"]
    post: _
    """
    stubs.reset_caches()
    t, _db = fresh_trie()
    try:
        got = t.get(q)
        ex = t.exists(q)
        inn = q in t
        got2 = t[q]
    except Exception as e:
        return _fail(f"lookup raised {type(e).__name__}: {e}")
    exp = spec_get(q)
    if got != exp or got2 != exp:
        return _fail(f"get returned {got!r}, contents say {exp!r}")
    if ex != (exp != b"") or inn != ex:
        return _fail("exists / in disagree with the contents")
    COUNTERS["paths"] += 1
    if exp == b"" and len(q) > 0:
        COUNTERS["nontrivial"] += 1
    if len(SAMPLES) < 2:
        SAMPLES.append({"contents": {k.hex(): len(v) for k, v in ITEMS}, "query": concrete(q).hex(), "result_len": len(concrete(got))})
    return True


def r_lookup(q: bytes) -> bool:
    """
    reachability twin: an absent key that is a proper prefix of a stored key is looked up
    pre: len(q) <= CFG["maxlen"]
    post: _
    """
    ok = h_lookup(q)
    if ok and spec_get(q) == b"":
        for k, _v in ITEMS:
            if len(k) > len(q) and k[:len(q)] == q:
                return False
    return ok


WARM = {
    "h_lookup": lambda cfg: [(b"\x12",), (b"",), (b"\x12\x34",)],
    "r_lookup": lambda cfg: [(b"\xff",)],
}


# ------------------------------------------------------------------------------- C10: NodeIterator
def spec_succ(k):
    """smallest stored key strictly greater than k (linear scan over the sorted contents)"""
    for key, _v in ITEMS:
        if key > k:
            return key
    return None


def h_next(k: bytes) -> bool:
    """
    pre: len(k) <= CFG["maxlen"]
    post: _
    """
    from trie.iter import NodeIterator
    stubs.reset_caches()
    t, _db = fresh_trie()
    try:
        got = NodeIterator(t).next(k)
    except Exception as e:
        return _fail(f"next raised {type(e).__name__}: {e}")
    exp = spec_succ(k)
    if got != exp:
        return _fail(f"next returned {got!r}, strict successor is {exp!r}")
    COUNTERS["paths"] += 1
    if exp is not None:
        COUNTERS["nontrivial"] += 1
    if len(SAMPLES) < 2:
        SAMPLES.append({"contents": [k_.hex() for k_, _ in ITEMS], "query": concrete(k).hex(), "successor": None if exp is None else concrete(exp).hex()})
    return True


def r_next(k: bytes) -> bool:
    """
    reachability twin: the query is itself a stored key that has a successor
    pre: len(k) <= CFG["maxlen"]
    post: _
    """
    ok = h_next(k)
    if ok and spec_get(k) != b"" and spec_succ(k) is not None:
        return False
    return ok


def h_iter(which: int) -> bool:
    """
    keys()/items()/values()/nodes()/next() have no symbolic input: `which` selects the obligation
    pre: 0 <= which <= 5
    post: _
    """
    from vf.xutil import notrace, pick
    w = pick(which, 6)
    with notrace():
        return _iter_concrete(w)


def _iter_concrete(w):
    from trie.iter import NodeIterator
    stubs.reset_caches()
    t, _db = fresh_trie()
    it = NodeIterator(t)
    try:
        if w == 0:
            got = list(it.keys())
            if got != [k for k, _ in ITEMS]:
                return _fail(f"keys() yielded {got!r}, contents in order are {[k for k, _ in ITEMS]!r}")
        elif w == 1:
            got = list(it.items())
            if got != ITEMS:
                return _fail(f"items() yielded {got!r}")
        elif w == 2:
            got = list(it.values())
            if got != [v for _, v in ITEMS]:
                return _fail(f"values() yielded {got!r}")
        elif w == 3:
            got = list(it.nodes())
            tree = TREE
            exp = mpt.all_nodes(tree)
            if tree is None:
                if len(got) == 0:
                    COUNTERS["paths"] += 1
                    return True          # an empty trie has no nodes; yielding nothing is as good as yielding the blank root once
                exp = [((), None)]       # the blank root is yielded once
            if [tuple(p) for p, _n in got] != [p for p, _n in exp]:
                return _fail(f"nodes() prefixes {[tuple(p) for p, _ in got]} differ from the pre-order of the canonical trie {[p for p, _ in exp]}")
            for (p, n), (_p2, en) in zip(got, exp):
                d = mpt.describe(en)
                if (int(n.node_type), tuple(tuple(s) for s in n.sub_segments), n.value, tuple(n.suffix)) != d:
                    return _fail(f"nodes(): node at {tuple(p)} is {n}, canonical trie has {d}")
                tn = t.traverse(p)
                if tn != n:
                    return _fail(f"nodes(): node at {tuple(p)} differs from traverse() of its prefix")
        elif w == 4:
            first = ITEMS[0][0] if ITEMS else None
            if it.next() != first or it.next(None) != first:
                return _fail(f"next() returned {it.next()!r}, smallest key is {first!r}")
        else:
            # the same iterator object after an abandoned walk and a change of the trie enumerates the current contents
            for _k in it.keys():
                break
            m2 = dict(MODEL)
            if ITEMS:
                t.delete(ITEMS[-1][0])
                m2.pop(ITEMS[-1][0])
                t.set(ITEMS[0][0], b"Z" * 40)
                m2[ITEMS[0][0]] = b"Z" * 40
            pool = hc.key_pool(CFG["kpool"], CFG.get("seed", 0))
            newk = [k for k in pool if k not in MODEL][0]
            t.set(newk, b"N" * 35)
            m2[newk] = b"N" * 35
            got = list(it.items())
            if got != sorted(m2.items()):
                return _fail(f"items() of a re-used iterator after changes yielded {got!r}, contents are {sorted(m2.items())!r}")
    except Exception as e:
        return _fail(f"iteration ({w}) raised {type(e).__name__}: {e}")
    COUNTERS["paths"] += 1
    COUNTERS["nontrivial"] += 1 if ITEMS else 0
    return True


WARM.update({
    "h_next": lambda cfg: [(b"\x12",), (b"",), (b"\x12\x34",), (b"\xff\xff",)],
    "r_next": lambda cfg: [(b"\xff",)],
    "h_iter": lambda cfg: [(0,), (3,), (5,)],
})


# ------------------------------------------------------------------------------- C08: traverse / traverse_from
def _sym_nibbles(path):
    """an unvalidated Nibbles instance over (possibly symbolic) ints: Nibbles(x) returns a Nibbles unchanged,
    so the Nibble() enum constructor (which realises) is bypassed; 0 <= n < 16 is a precondition"""
    from trie.typing import Nibbles
    return tuple.__new__(Nibbles, path)


def _desc(n):
    return (int(n.node_type), tuple(tuple(s) for s in n.sub_segments), bytes(n.value), tuple(n.suffix))


def _norm_raw(raw):
    if isinstance(raw, (list, tuple)):
        return [_norm_raw(x) for x in raw]
    return bytes(raw)


def _starts_any(path):
    """does some stored key (as nibbles) start with path?  (independent of the tree walk)"""
    n = len(path)
    for k, _v in ITEMS:
        kn = mpt.nibbles_of(k)
        if len(kn) >= n and kn[:n] == tuple(path):
            return True
    return False


def _outcome(fn):
    """run a traversal, normalise result / TraversedPartialPath into a comparable tuple"""
    from trie.exceptions import TraversedPartialPath
    try:
        n = fn()
        return ("node", _desc(n), _norm_raw(n.raw))
    except TraversedPartialPath as e:
        return ("partial", tuple(e.nibbles_traversed), _desc(e.node), tuple(e.untraversed_tail), _desc(e.simulated_node), _norm_raw(e.simulated_node.raw))


def _expected_outcome(tree, path):
    (res, route) = mpt.locate(tree, path)
    if res[0] == "node":
        node = res[1]
        return ("node", mpt.describe(node), _norm_raw(mpt.structure(node)))
    _tag, node, prefix, tail = res
    if node.kind == "leaf":
        trimmed = node.path[len(tail):]
        sim = (1, (), node.value, trimmed)
        raw = [mpt.hp(trimmed, True), node.value]
    else:
        trimmed = node.path[len(tail):]
        sim = (2, (trimmed,), b"", ())
        raw = [mpt.hp(trimmed, False), _norm_raw(mpt.ref(node.child))]
    return ("partial", tuple(prefix), mpt.describe(node), tuple(tail), sim, _norm_raw(raw))


def _pre_path(path):
    if len(path) > CFG["maxnib"]:
        return False
    for n in path:
        if not 0 <= n <= 15:
            return False
    return True


def h_traverse(path: List[int]) -> bool:
    """
    pre: _pre_path(path)
    post: _
    """
    stubs.reset_caches()
    t, _db = fresh_trie()
    p = _sym_nibbles(path)
    try:
        got = _outcome(lambda: t.traverse(p))
    except Exception as e:
        return _fail(f"traverse raised {type(e).__name__}: {e}")
    tree = TREE
    exp = _expected_outcome(tree, tuple(path))
    if got != exp:
        return _fail(f"traverse gave {got!r}, the canonical trie has {exp!r}")
    blank = got[0] == "node" and got[1][0] == 0
    if blank != (not _starts_any(path)):
        return _fail("blank result does not coincide with 'no stored key starts with the path'")
    if len(path) == 0:
        try:
            rn = t.root_node
        except Exception as e:
            return _fail(f"root_node raised {type(e).__name__}")
        if ("node", _desc(rn), _norm_raw(rn.raw)) != got:
            return _fail("root_node differs from traverse(())")
    COUNTERS["paths"] += 1
    if got[0] == "partial":
        COUNTERS["nontrivial"] += 1
    if len(SAMPLES) < 2:
        SAMPLES.append({"contents": [k.hex() for k, _ in ITEMS], "path": concrete(list(path)), "outcome": got[0]})
    return True


def r_traverse(path: List[int]) -> bool:
    """
    reachability twin: a traversal that ends strictly inside a leaf or extension
    pre: _pre_path(path)
    post: _
    """
    ok = h_traverse(path)
    if ok:
        tree = TREE
        if mpt.locate(tree, tuple(path))[0][0] == "partial":
            return False
    return ok


def h_traverse_from(path: List[int], split: int) -> bool:
    """
    traverse_from(traverse(prefix), seg) == traverse(prefix + seg), with at most one db read per child hop
    pre: _pre_path(path) and 0 <= split <= len(path)
    post: _
    """
    from trie.exceptions import TraversedPartialPath
    stubs.reset_caches()
    t, db = fresh_trie(stubs.CountingDict)
    prefix, seg = path[:split], path[split:]
    try:
        start = t.traverse(_sym_nibbles(prefix))
    except TraversedPartialPath:
        return True          # no node exactly at prefix: nothing to traverse from
    except Exception as e:
        return _fail(f"traverse(prefix) raised {type(e).__name__}: {e}")
    whole = _outcome(lambda: t.traverse(_sym_nibbles(path)))
    db.reads = 0
    try:
        part = _outcome(lambda: t.traverse_from(start, _sym_nibbles(seg)))
    except Exception as e:
        return _fail(f"traverse_from raised {type(e).__name__}: {e}")
    reads = db.reads
    if part[0] == "partial":
        part = ("partial", tuple(prefix) + part[1]) + part[2:]
    if part != whole:
        return _fail(f"traverse_from(node at prefix, segment) gave {part!r} but traverse(prefix+segment) gave {whole!r}")
    # child hops: nodes entered after the start node, from the oracle's route
    tree = TREE
    r_whole = mpt.locate(tree, tuple(path))[1]
    r_pref = mpt.locate(tree, tuple(prefix))[1]
    hops = max(0, len(r_whole) - len(r_pref))
    if reads > hops:
        return _fail(f"traverse_from read the database {reads} times for {hops} child hops")
    COUNTERS["paths"] += 1
    if len(seg) > 0 and len(prefix) > 0:
        COUNTERS["nontrivial"] += 1
    return True


WARM.update({
    "h_traverse": lambda cfg: [([],), ([1],), ([1, 2, 3],), ([1, 2, 3, 4, 5],), ([1, 2, 3, 4, 5, 6, 7],)],
    "r_traverse": lambda cfg: [([15],)],
    "h_traverse_from": lambda cfg: [([1, 2, 3, 4], 1), ([1, 2, 3, 4, 5, 6], 3), ([], 0)],
})


# ------------------------------------------------------------------------------- C03: proofs
OTHER = None      # (model2, state2) of a second trie, for foreign nodes / foreign roots
PROOF_QS: list = []


def _setup_other():
    global OTHER, PROOF_QS
    fam = family_for(CFG)
    m2 = dict(fam[(CFG["mi"] * 7 + 5) % len(fam)])
    if m2 == MODEL:
        m2 = dict(fam[(CFG["mi"] * 7 + 6) % len(fam)])
    OTHER = (m2, hc.canonical_state(m2))
    qs = set(MODEL)
    for k in list(qs):
        if k:
            qs.add(k[:-1])
        qs.add(k + b"\x00")
    qs |= set(list(m2)[:2])
    qs.add(b"\x77")
    PROOF_QS = sorted(qs)


def h_proof(q: bytes) -> bool:
    """
    completeness: get_from_proof(root, q, get_proof(q)) == get(q) == contents, proof nodes lie on q's path
    pre: len(q) <= CFG["maxlen"]
    post: _
    """
    stubs.reset_caches()
    t, _db = fresh_trie()
    root = STATE[0]
    try:
        proof = t.get_proof(q)
        val = HexaryTrie.get_from_proof(root, q, proof)
        direct = t.get(q)
    except Exception as e:
        return _fail(f"get_proof / get_from_proof raised {type(e).__name__}: {e}")
    exp = spec_get(q)
    if val != exp or direct != exp:
        return _fail(f"get_from_proof returned {val!r}, get {direct!r}, contents say {exp!r}")
    route = mpt.lookup_route(TREE, mpt.nibbles_of(q))
    allowed = [_norm_raw(mpt.structure(n)) for (_p, n) in route]
    for node in proof:
        if _norm_raw(node) not in allowed:
            return _fail(f"get_proof returned a node that is not on the key's path: {_norm_raw(node)!r}")
    COUNTERS["paths"] += 1
    if exp == b"" and len(q) > 0:
        COUNTERS["nontrivial"] += 1
    if len(SAMPLES) < 2:
        SAMPLES.append({"contents": [k.hex() for k, _ in ITEMS], "key": concrete(q).hex(), "proof_len": len(proof)})
    return True


def r_proof(q: bytes) -> bool:
    """
    reachability twin: proof of an absent key whose path ends at a branch or inside an extension / leaf
    pre: len(q) <= CFG["maxlen"]
    post: _
    """
    ok = h_proof(q)
    if ok and spec_get(q) == b"" and _starts_any(mpt.nibbles_of(q)) and len(q) > 0:
        return False
    return ok


MAXP = 4      # positions / withheld-subset bits considered (quick 4, thorough 6 = longest proof in the family)


def _pre_forge(qi, kind, a, mask, other_root):
    if not (0 <= qi < len(PROOF_QS) and 0 <= kind <= 4 and 0 <= a < MAXP and 0 <= mask < 2 ** MAXP):
        return False
    if kind == 0:
        return a == 0                        # withhold-only: every subset
    return mask in (0, 1, 2, 4, 8, 16, 32)   # structural corruption + at most one withheld node


def h_forge(qi: int, kind: int, a: int, mask: int, other_root: bool) -> bool:
    """
    soundness: a corrupted node list never proves a value the trie with the claimed root does not hold
    pre: _pre_forge(qi, kind, a, mask, other_root)
    post: _
    """
    from vf.xutil import notrace, pick
    qi, kind, a, mask = pick(qi, len(PROOF_QS)), pick(kind, 5), pick(a, MAXP), pick(mask, 2 ** MAXP)
    other_root = bool(other_root)
    with notrace():
        return _forge_concrete(qi, kind, a, mask, other_root)


def _altered(node):
    node = list(node) if isinstance(node, (list, tuple)) else node
    if not isinstance(node, list):
        return node
    if len(node) == 17:
        out = list(node)
        if out[16]:
            out[16] = bytes(out[16]) + b"!"                 # another value on the branch
        else:
            for i in range(16):
                if isinstance(out[i], bytes) and len(out[i]) == 32:
                    out[i] = bytes(32)                      # a child pointer to nowhere
                    break
            else:
                out[16] = b"!"
        return out
    if len(node) == 2:
        key, val = node
        if isinstance(val, bytes) and len(val) == 32 and (bytes(key)[0] >> 4) in (0, 1):
            return [key, bytes(32)]                         # extension pointing elsewhere
        if isinstance(val, bytes):
            return [key, bytes(val) + b"!"]                 # leaf with another value
    return node


def _forge_concrete(qi, kind, a, mask, other_root):
    from trie.exceptions import BadTrieProof
    stubs.reset_caches()
    q = PROOF_QS[qi]
    t, _db = fresh_trie()
    m2, (root2, db2, _rc2) = OTHER
    t2 = HexaryTrie(dict(db2), root2)
    proof = list(t.get_proof(q))
    n = len(proof)
    foreign = list(t2.get_proof(q)) or [[b"\x20", b"zz"]]
    if kind == 1 and n >= 2:                      # swap two neighbours
        i = a % (n - 1)
        proof[i], proof[i + 1] = proof[i + 1], proof[i]
    elif kind == 2 and n >= 1:                    # duplicate one node (at the end)
        proof.append(proof[a % n])
    elif kind == 3 and n >= 1:                    # node taken from the proof of the same key in another trie
        proof[a % n] = foreign[a % len(foreign)]
    elif kind == 4 and n >= 1:                    # altered node: still well formed, different content
        proof[a % n] = _altered(proof[a % n])
    proof = [nd for i, nd in enumerate(proof) if not (mask >> i) & 1]      # withhold any subset
    if other_root:
        root, model = root2, m2
        tree = mpt.tree_of(m2)
    else:
        root, model = STATE[0], MODEL
        tree = TREE
    exp = model.get(q, b"")
    present = [_norm_raw(x) for x in proof]
    route = mpt.lookup_route(tree, mpt.nibbles_of(q))
    withheld = any((i == 0 or mpt.is_hashed(nd)) and _norm_raw(mpt.structure(nd)) not in present for i, (_p, nd) in enumerate(route))
    try:
        val = HexaryTrie.get_from_proof(root, q, tuple(proof))
    except BadTrieProof:
        COUNTERS["paths"] += 1
        COUNTERS["nontrivial"] += 1
        return True
    except Exception as e:
        return _fail(f"get_from_proof raised {type(e).__name__} (not BadTrieProof) on a corrupted proof: {e}")
    if val != exp:
        return _fail(f"corrupted proof (kind {kind}, a {a}, mask {mask:b}, other_root {other_root}) for key {q.hex()} proved {val!r}; the trie with that root holds {exp!r}")
    if withheld:
        return _fail(f"a hashed node on the path of key {q.hex()} was withheld (kind {kind}, mask {mask:b}, other_root {other_root}) yet get_from_proof returned {val!r} instead of raising BadTrieProof")
    COUNTERS["paths"] += 1
    return True


def r_forge(qi: int, kind: int, a: int, mask: int, other_root: bool) -> bool:
    """
    reachability twin: a proof with a withheld hashed node is rejected with BadTrieProof
    pre: _pre_forge(qi, kind, a, mask, other_root)
    post: _
    """
    before = COUNTERS["nontrivial"]
    ok = h_forge(qi, kind, a, mask, other_root)
    if ok and COUNTERS["nontrivial"] > before and mask != 0:
        return False
    return ok


WARM.update({
    "h_proof": lambda cfg: [(b"\x12",), (b"",), (b"\x12\x34",), (b"\x12\x34\x56",)],
    "r_proof": lambda cfg: [(b"\xff",)],
    "h_forge": lambda cfg: [(0, 0, 0, 0, False), (1, 3, 0, 1, True)],
    "r_forge": lambda cfg: [(0, 0, 0, 0, False)],
})
