"""C01 - HexaryTrie behaves as a byte-string map under every history.  (Engine X)

(a) step harness: from the canonical state of every contents set of the family, every operation of the
    pool (method and dict syntax, direct and inside a one-operation squash_changes batch, prune on/off)
    leaves a trie whose get/exists/in/[] agree with the updated contents on all pool keys and their
    neighbours (prefixes, one-nibble-off, extensions) -- inductive over histories (hexcommon docstring).
(c) squash_changes batches of <=2 (3) operations left normally or by an exception after any operation, followed by a direct
    write to the key the batch touched first: reads inside the batch, after it and after the later write follow the map model.
(d) a set() whose value CONTENT is a symbolic byte string of 32 bytes (thorough: also 1 byte): get returns it, exists / in are true (this is where a value
    that happens to equal a sentinel constant such as the blank-root hash is found by the solver).
(b) symbolic lookups: on the canonical trie of every contents set of the query family, get(q) for a
    symbolic byte string q (len <= 3 quick / 4 thorough) equals the contents.
"""
import sys

from vf import common, xengine
from vf.props import hexstep, hexquery, hexbatch

PROPERTY = "C01"
FUNCTIONS = ["trie.hexary.HexaryTrie.get/_get/_traverse/_traverse_from/_traverse_extension/set/_set/_set_kv_node/_set_branch_node/"
             "delete/_delete/_delete_kv_node/_delete_branch_node/_normalize_branch_node/exists/__getitem__/__setitem__/__delitem__/__contains__/squash_changes"]
ASSUMPTIONS = [
    "stored keys/values come from finite pools (chosen by symbolic indices, exhausted by the path search); the lookup key of harness (b) is a genuinely symbolic byte string",
    "pre-states are the canonical (Yellow Paper) states of the family's contents sets, built by the independent oracle; coverage of longer histories is by induction over single steps and holds only while contents stay in the family",
    "table lifting in harness (b): VALID_NIBBLES / REVERSE_NIBBLES_LOOKUP / NIBBLES_LOOKUPS replaced by closed forms after comparing all entries (also an obligation of C16)",
    "real keccak and real pyrlp are executed on concrete bytes; no keccak collision among the nodes of a run",
]
BOUNDS = {
    "quick": "step: contents sets = all <=2-subsets of the 7-key pool x {1-byte, 33-byte} values + 9 special 3/4-key sets; ops = {set,[]=,delete,del} x 7 keys x 4 values; non-pruning direct from every set, pruning direct / pruning one-op batch from a third of the sets each. lookups: 3-key-subsets family (<=3 keys, short/long/mixed), symbolic q with len <= 3",
    "thorough": "step: ~630 contents sets over the 10-key pool (all <=2-subsets x 3 value classes, all 3-subsets of 7 keys x 4 patterns), 12-value pool, one of four configurations each (rotating); lookups: every 3rd of the 379 <=4-key tries, symbolic q with len <= 4; 3-op batches from a third of the batch pre-states",
}
OUTSIDE = "keys outside the pools as stored keys; lookup keys longer than 4 bytes; more than 4 live keys; batches of more than one operation (C05)"
NONTRIVIAL_RULE = "step: the operation changed the contents; lookup: the query is a non-empty absent key"


def jobs(tier):
    seed = common.seed()
    kp, vp = ("K7", "V4") if tier == "quick" else ("K10", "V12")
    if tier == "quick":
        configs = [(False, "direct"), (True, "direct"), (True, "batch")]
        select = lambda mi, ci: ci == 0 or (mi % 3 == ci)       # noqa: E731  every set non-pruning; a third each pruning direct / batch
    else:
        configs = [(False, "direct"), (True, "direct"), (False, "batch"), (True, "batch")]
        select = lambda mi, ci: ci == mi % 4           # noqa: E731  one of the four configurations per contents set, rotating
    out = hexstep.step_jobs(tier, ["map", "reach"], kp, vp, seed, configs, select)
    qbase = {"tier": tier, "kpool": kp, "seed": seed, "maxlen": 3 if tier == "quick" else 4, "lift": True}
    nq = len(hexquery.family_for(qbase))
    for mi in range(nq):
        if tier != "quick" and mi % 3 != 1:
            continue
        out.append({"module": "vf.props.hexquery", "fn": "h_lookup", "cfg": dict(qbase, mi=mi), "pct": 900, "ppt": 30})
    out.append({"module": "vf.props.hexquery", "fn": "r_lookup", "cfg": dict(qbase, mi=nq - 1), "pct": 300, "ppt": 30, "kind": "reach"})
    # (c) multi-operation batches, committed or aborted, then a later direct write: reads must follow the map model
    # (d) one stored value with symbolic CONTENT (keccak replaced by an injective interning function): get / exists / in
    sym = hexstep.symval_jobs(tier, ["map"], seed, [False])
    out += [j for j in sym if j["cfg"]["vlen"] == 32][:: (4 if tier == "quick" else 1)] + ([j for j in sym if j["cfg"]["vlen"] == 1] if tier != "quick" else [])
    out += hexbatch.batch_jobs(tier, ["inbatch", "reads", "usable"], seed, [True] if tier == "quick" else [False, True],
                               exits="all", select=(lambda mi, pi: mi % 2 == 0) if tier == "quick" else (lambda mi, pi: mi % 3 == pi))
    return out


def run(tier):
    return xengine.run_x(sys.modules[__name__], tier)
