"""C07 harness: missing node bodies.  One symbolic bool per database entry ("is this node body absent"),
consulted lazily by a hiding dict only when that entry is read, so the solver splits paths exactly by
which node on the operation's route is the first one missing.  Operation kind and key are symbolic indices.

cfg: {"mi", "tier", "kpool", "seed", "prune": bool, "batch": bool}
"""
from typing import List  # noqa: F401

from vf import stubs
from vf.oracle import mpt
from vf.props import hexcommon as hc
from vf.props import hexquery
from vf.xutil import concrete, notrace, pick

stubs.warm()

from trie import HexaryTrie  # noqa: E402
from trie.exceptions import MissingTraversalNode, MissingTrieNode, TraversedPartialPath  # noqa: E402

CFG: dict = {}
MODEL: dict = {}
STATE = None
TREE = None
ORDER: list = []
QKEYS: list = []
TPATHS: list = []
ALLOWED: dict = {}
EXPECT: dict = {}
COUNTERS = {"nontrivial": 0, "paths": 0, "missing_reported": 0, "retries": 0}
SAMPLES: list = []
LAST_REASON = ""
NEWVAL = b"N" * 34
OTHERKEY = b"\x9a\xbc"      # cfg["after_fail"] == "other": the key of the different write that follows a failed call
PREKEY = b"\xfe\xdc"       # cfg["pre"]: a first, successful-unless-the-root-is-missing write inside the same batch (its route is the root only)
OPS = ["get", "exists", "set", "delete", "traverse", "traverse_from"]


def configure(cfg):
    global CFG, MODEL, STATE, TREE, ORDER, QKEYS, TPATHS, ALLOWED
    CFG = dict(cfg)
    fam = hexquery.family_for(cfg)
    MODEL = dict(fam[cfg["mi"]])
    STATE = hc.canonical_state(MODEL)
    TREE = mpt.tree_of(MODEL)
    ORDER = sorted(STATE[1])
    keys = hc.key_pool(cfg["kpool"], cfg.get("seed", 0))
    qs = list(MODEL)
    for k in keys:
        if k not in qs and len(qs) < len(MODEL) + 3:
            qs.append(k)
    for k in list(MODEL):
        if k and k[:-1] not in qs:
            qs.append(k[:-1])
    QKEYS = qs[:8]
    # traversal targets: every node prefix, plus a point inside every leaf / extension
    tp = []
    for prefix, node in mpt.all_nodes(TREE):
        tp.append(tuple(prefix))
        if node.kind in ("leaf", "ext") and len(node.path) >= 1:
            tp.append(tuple(prefix) + tuple(node.path[:1]))
        if node.kind == "leaf":
            tp.append(tuple(prefix) + tuple(node.path))
    tp.append((7, 7))
    TPATHS = sorted(set(tp))[:12]
    ALLOWED = {}
    for k in QKEYS:
        route = mpt.lookup_route(TREE, mpt.nibbles_of(k))
        on = {}
        for i, (p, n) in enumerate(route):
            if i == 0 or mpt.is_hashed(n):
                on[mpt.keccak(mpt.encoded(n))] = tuple(p)
        sib = dict(on)
        for (p, n) in route:
            if n.kind == "branch":
                for j, c in enumerate(n.children):
                    if c is not None and mpt.is_hashed(c):
                        sib.setdefault(mpt.keccak(mpt.encoded(c)), tuple(p) + (j,))
        ALLOWED[("key", k)] = (on, sib)
    for tpth in TPATHS:
        _res, route = mpt.locate(TREE, tpth)
        on = {}
        for i, (p, n) in enumerate(route):
            if n is not None and (i == 0 or mpt.is_hashed(n)):
                on[mpt.keccak(mpt.encoded(n))] = tuple(p)
        ALLOWED[("path", tpth)] = (on, on)
    EXPECT.clear()
    for k in QKEYS:
        m2 = dict(MODEL)
        if cfg.get("pre"):
            m2[PREKEY] = NEWVAL
        m2[k] = NEWVAL
        EXPECT[("set", k)] = mpt.root_of(m2)
        m3 = dict(MODEL)
        if cfg.get("pre"):
            m3[PREKEY] = NEWVAL
        m3.pop(k, None)
        EXPECT[("delete", k)] = mpt.root_of(m3)
    for tpth in TPATHS:
        EXPECT[("traverse", tpth)] = EXPECT[("traverse_from", tpth)] = hexquery._expected_outcome(TREE, tuple(tpth))
    for k in COUNTERS:
        COUNTERS[k] = 0
    del SAMPLES[:]
    stubs.reset_caches()


def _fail(msg):
    global LAST_REASON
    LAST_REASON = msg
    return False


def _snapshot(t, db):
    return (t.root_hash, dict(dict.items(db)), hc.nz(t.ref_count) if t.is_pruning else None)


def _pre(miss, op, ki):
    if len(miss) != len(ORDER):
        return False
    if not 0 <= op < len(OPS):
        return False
    if op not in CFG.get("ops", (0, 1, 2, 3, 4, 5)):
        return False
    n = len(TPATHS) if OPS_is_path(op) else len(QKEYS)
    return 0 <= ki < n


def OPS_is_path(op):
    return op >= 4


def h_missing(miss: List[bool], op: int, ki: int) -> bool:
    """
    pre: _pre(miss, op, ki)
    post: _
    """
    op = pick(op, len(OPS))
    is_path = OPS_is_path(op)
    ki = pick(ki, len(TPATHS) if is_path else len(QKEYS))
    miss = [miss[i] for i in range(len(ORDER))]
    # operation and key are concrete now; the trie code runs natively and every read of a node body asks the
    # solver (HidingDict -> stubs._decide resumes tracing for that one symbolic bool) whether it is missing
    with notrace():
        return _missing_body(miss, op, is_path, ki)


def _missing_body(miss, op, is_path, ki):
    stubs.reset_caches()
    opname = OPS[op]
    prune, batch = CFG["prune"], CFG["batch"] and op in (0, 1, 2, 3)
    root, dbc, rc = STATE
    db = stubs.HidingDict(dbc, ORDER, miss)
    from collections import defaultdict
    if prune and CFG.get("fresh"):
        t = HexaryTrie(db, root, prune=True)          # a pruning trie freshly opened on an existing database: empty count table
    else:
        t = HexaryTrie(db, root, prune=True, ref_count=defaultdict(int, rc)) if prune else HexaryTrie(db, root)
    target = TPATHS[ki] if is_path else QKEYS[ki]
    on, allowed = ALLOWED[("path" if is_path else "key", target)]
    if opname in ("get", "exists", "set", "traverse", "traverse_from"):
        allowed = on
    # expected complete-database result
    if opname == "get":
        exp = MODEL.get(target, b"")
    elif opname == "exists":
        exp = MODEL.get(target, b"") != b""
    else:
        exp = EXPECT[(opname, target)]
    start_node, start_prefix = None, ()
    if opname == "traverse_from":
        # start from the node at the longest proper node-prefix of the target (obtained on the complete db)
        full = HexaryTrie(dict(dbc), root)
        cands = [p for p, _n in mpt.locate(TREE, target)[1] if len(p) < len(target)]
        start_prefix = cands[-1] if cands else ()
        try:
            start_node = full.traverse(start_prefix)
        except TraversedPartialPath:
            return True
        allowed = {h: p for h, p in on.items() if len(p) > len(start_prefix)}

    def run():
        if opname == "get":
            return (b if batch else t).get(target)
        if opname == "exists":
            return (b if batch else t).exists(target)
        if opname in ("set", "delete") and batch and CFG.get("pre"):
            b.set(PREKEY, NEWVAL)
        holder["root"] = (b if batch else t).root_hash       # the root of the trie object the failing call is made on
        if opname == "set":
            (b if batch else t).set(target, NEWVAL)
            return None
        if opname == "delete":
            (b if batch else t).delete(target)
            return None
        if opname == "traverse":
            return hexquery._outcome(lambda: t.traverse(target))
        o = hexquery._outcome(lambda: t.traverse_from(start_node, target[len(start_prefix):]))
        if o[0] == "partial":       # nibbles_traversed of traverse_from is relative to the start node
            o = ("partial", tuple(start_prefix) + o[1]) + o[2:]
        return o

    asked = []
    holder = {"root": root}
    for attempt in range(len(ORDER) + 2):
        holder["root"] = root
        snap = _snapshot(t, db)
        try:
            if batch:
                with t.squash_changes() as b:
                    got = run()
            else:
                b = None
                got = run()
        except MissingTrieNode as e:
            h = bytes(e.missing_node_hash)
            if opname in ("traverse", "traverse_from"):
                return _fail("traversal raised MissingTrieNode instead of MissingTraversalNode")
            if not db.hidden(h):
                return _fail(f"MissingTrieNode names {h.hex()[:12]} which is present in the database")
            if h not in allowed:
                return _fail(f"MissingTrieNode names {h.hex()[:12]} which does not lie on the path of the requested key {target.hex()}")
            if bytes(e.root_hash) != holder["root"] or (bytes(e.requested_key) != target and not (CFG.get("pre") and bytes(e.requested_key) == PREKEY)):
                return _fail("MissingTrieNode carries a wrong root hash or requested key")
            if opname in ("get", "exists") and (e.prefix is None or tuple(e.prefix) != on[h]):
                return _fail(f"MissingTrieNode.prefix is {e.prefix}, the missing node sits at {on[h]}")
        except MissingTraversalNode as e:
            h = bytes(e.missing_node_hash)
            if opname not in ("traverse", "traverse_from"):
                return _fail("MissingTraversalNode escaped from a key operation")
            if not db.hidden(h):
                return _fail(f"MissingTraversalNode names {h.hex()[:12]} which is present in the database")
            if h not in allowed:
                return _fail(f"MissingTraversalNode names {h.hex()[:12]} which is not on the requested path {target}")
            want = allowed[h][len(start_prefix):]
            if tuple(e.nibbles_traversed) != tuple(want):
                return _fail(f"nibbles_traversed is {tuple(e.nibbles_traversed)}, the missing node sits at {want}")
        except Exception as e:
            return _fail(f"{opname} raised {type(e).__name__}: {e}")
        else:
            # same result as on the complete database
            if opname in ("get", "exists", "traverse", "traverse_from"):
                if got != exp:
                    return _fail(f"{opname} returned {got!r}, complete-database result is {exp!r}")
            else:
                if t.root_hash != exp:
                    return _fail(f"{opname} succeeded with missing nodes but the new root is not the canonical root")
            COUNTERS["paths"] += 1
            if asked:
                COUNTERS["nontrivial"] += 1
                if len(SAMPLES) < 2:
                    SAMPLES.append({"contents": [k.hex() for k in MODEL], "op": opname, "target": target.hex() if isinstance(target, bytes) else list(target),
                                    "missing_nodes_supplied_one_by_one": len(asked), "prune": prune, "batch": bool(batch)})
            return True
        # failed: nothing may have changed, then supply exactly the reported node and retry
        if _snapshot(t, db) != snap:
            return _fail(f"failed {opname} changed root, database or reference counts")
        if CFG.get("after_fail") == "other" and not batch and opname in ("set", "delete"):
            # instead of retrying: a DIFFERENT write on the same trie object, with every node available again.  A failed call
            # that really left nothing behind cannot influence it: the result must be the canonical state of MODEL + that write
            for hh in list(ORDER):
                db.unhide(hh)
            ok2, v2 = OTHERKEY, b"O" * 36
            try:
                t.set(ok2, v2)
            except Exception as e:
                return _fail(f"a different write after a failed {opname} raised {type(e).__name__}: {e}")
            m4 = dict(MODEL)
            m4[ok2] = v2
            if t.root_hash != mpt.root_of(m4):
                return _fail(f"root after a different write following a failed {opname} is not the canonical root")
            if prune and not CFG.get("fresh"):
                if dict(dict.items(db)) != mpt.db_of(m4) or hc.nz(t.ref_count) != mpt.ref_counts(m4):
                    return _fail(f"a failed {opname} left something behind: after a different write the pruning db / counts are not exact")
            for kq in list(MODEL) + [ok2]:
                try:
                    if t.get(kq) != m4[kq]:
                        return _fail(f"after a failed {opname} and a different write, get({kq.hex()}) is wrong")
                except Exception as e:
                    return _fail(f"after a failed {opname} and a different write, get({kq.hex()}) raised {type(e).__name__}")
            COUNTERS["paths"] += 1
            COUNTERS["nontrivial"] += 1
            return True
        if h in asked:
            return _fail(f"node {h.hex()[:12]} was asked for twice")
        asked.append(h)
        COUNTERS["missing_reported"] += 1
        db.unhide(h)
        COUNTERS["retries"] += 1
    return _fail("retry loop did not converge")


def hexquery_expected(path):
    return hexquery._expected_outcome(TREE, tuple(path))


def r_missing(miss: List[bool], op: int, ki: int) -> bool:
    """
    reachability twin: an operation that needed at least two retries (two different nodes reported missing)
    pre: _pre(miss, op, ki)
    post: _
    """
    before = COUNTERS["retries"]
    ok = h_missing(miss, op, ki)
    if ok and COUNTERS["retries"] - before >= 2:
        return False
    return ok


WARM = {
    "h_missing": lambda cfg: [a for a in [([False] * len(ORDER), 0, 0), ([True] * len(ORDER), 2, 0), ([True] * len(ORDER), 3, 0), ([True] * len(ORDER), 4, min(2, len(TPATHS) - 1)),
                                          ([True] * len(ORDER), 5, len(TPATHS) - 1), ([True] * len(ORDER), 0, len(QKEYS) - 1)] if a[1] in cfg.get("ops", (0, 1, 2, 3, 4, 5))],
    "r_missing": lambda cfg: [([False] * len(ORDER), 0, 0)],
}
