"""C17 - ScratchDB buffers a batch and commits it atomically or not at all.  (Engine X)

Symbolic on every path: the stored values (base and written), do_deletes, the abort position.
Exhausted by the path search: op kinds, keys over {0,1,2}, which base keys pre-exist (partition).
"""
from typing import List, Tuple

from trie.utils.db import ScratchDB

from vf import xengine
from vf.stubs import CountingDict
from vf.xutil import concrete

PROPERTY = "C17"
FUNCTIONS = ["trie.utils.db.ScratchDB.__getitem__", "__setitem__", "__delitem__", "__contains__", "copy", "batch_commit"]
ASSUMPTIONS = [
    "exit by exception: an ordinary Exception in half of the partitions, a BaseException that is not an Exception (like KeyboardInterrupt) in the other half",
    "wrapped database is a dict subclass (CountingDict) that never fails; failing commits are C04/C05's subject",
    "keys range over {0,1,2} (hashable ints, realised by dict hashing); values are unconstrained symbolic ints",
    "copy() is only constrained on keys whose latest buffered action is not a delete (the statement speaks of reads and membership for read-through)",
]
BOUNDS = {
    "quick": "batch of <= 2 operations over kinds {set, del, get, contains, copy}; keys {0,1} with all 4 subsets pre-existing, plus keys {0,1,2} with {0,2} pre-existing; abort position in [-1, len]; do_deletes symbolic",
    "thorough": "batch of <= 3 operations over keys {0,1,2}; pre-existing key sets {}, {0,2}, {0,1,2} (partitioned by set x first operation)",
}
OUTSIDE = "batches longer than the bound, more than 3 distinct keys, unhashable keys, wrapped databases whose writes fail"
NONTRIVIAL_RULE = "path on which a read/contains/copy was answered from the buffer or read through a buffered delete, or a commit applied at least one buffered action"

CFG = {"mask": 7, "maxops": 2, "first": None, "nkeys": 3}
COUNTERS = {"nontrivial": 0, "paths": 0}
SAMPLES: list = []
LAST_REASON = ""


class _Abort(Exception):
    pass


class _HardAbort(BaseException):
    """an exit by exception that is not an `Exception` (as KeyboardInterrupt / SystemExit / GeneratorExit would be)"""


def configure(cfg):
    global CFG
    CFG = dict(cfg)
    CFG.setdefault("nkeys", 3)
    COUNTERS["nontrivial"] = 0
    COUNTERS["paths"] = 0
    del SAMPLES[:]


def _fail(msg):
    global LAST_REASON
    LAST_REASON = msg
    return False


def _body(bvals, ops, do_deletes, exc_at):
    mask = CFG["mask"]
    base = {k: bvals[k] for k in range(3) if mask >> k & 1}
    wrapped = CountingDict(base)
    before = dict(base)
    sdb = ScratchDB(wrapped)
    latest = {}   # key -> ("set", v) | ("del",)
    interesting = False

    def model_read(k):
        a = latest.get(k)
        if a is not None and a[0] == "set":
            return True, a[1]
        if k in before:
            return True, before[k]
        return False, None

    aborted = False
    try:
        with sdb.batch_commit(do_deletes=do_deletes):
            for j, (kind, key, val) in enumerate(ops):
                if j == exc_at:
                    raise (_HardAbort() if CFG.get("hard") else _Abort())
                if kind == 0:
                    sdb[key] = val
                    latest[key] = ("set", val)
                elif kind == 1:
                    try:
                        del sdb[key]
                    except KeyError:
                        if model_read(key)[0]:
                            return _fail(f"del of readable key {key} raised KeyError")
                    latest[key] = ("del",)
                elif kind == 2:
                    present, exp = model_read(key)
                    try:
                        got = sdb[key]
                    except KeyError:
                        if present:
                            return _fail(f"read of key {key} raised KeyError, model has a value")
                    else:
                        if not present:
                            return _fail(f"read of key {key} returned a value, model has none")
                        if got != exp:
                            return _fail(f"read of key {key}: wrong value")
                    if key in latest:
                        interesting = True
                elif kind == 3:
                    if (key in sdb) != model_read(key)[0]:
                        return _fail(f"membership of key {key} disagrees with model")
                    if key in latest:
                        interesting = True
                else:
                    c = sdb.copy()
                    for k in range(3):
                        a = latest.get(k)
                        if a is not None and a[0] == "del":
                            continue     # unconstrained, see ASSUMPTIONS
                        present, exp = model_read(k)
                        if (k in c) != present:
                            return _fail(f"copy(): presence of key {k} wrong")
                        if present and c[k] != exp:
                            return _fail(f"copy(): value of key {k} wrong")
                    if set(c) - {0, 1, 2}:
                        return _fail("copy(): foreign key")
                    if latest:
                        interesting = True
                # the wrapped database is never written while the batch is open
                if wrapped.writes or wrapped.deletes or dict(wrapped) != before:
                    return _fail(f"wrapped db written during the batch at op {j}")
            if len(ops) == exc_at:
                raise (_HardAbort() if CFG.get("hard") else _Abort())
    except (_Abort, _HardAbort):
        aborted = True
    if aborted:
        if dict(wrapped) != before or wrapped.writes or wrapped.deletes:
            return _fail("wrapped db changed although the batch was aborted")
        expected = before
    else:
        expected = dict(before)
        for k, a in latest.items():
            if a[0] == "set":
                expected[k] = a[1]
                interesting = True
            elif do_deletes:
                expected.pop(k, None)
                interesting = True
        if dict(wrapped) != expected:
            return _fail("wrapped db after commit differs from last-write-wins model")
    # buffer empty afterwards: the scratch db now reads exactly like the wrapped db
    for k in range(3):
        if (k in sdb) != (k in expected):
            return _fail(f"after the batch: membership of {k} not that of the wrapped db (buffer not empty?)")
        if k in expected:
            if sdb[k] != expected[k]:
                return _fail(f"after the batch: value of {k} not that of the wrapped db")
        else:
            try:
                sdb[k]
                return _fail(f"after the batch: read of absent key {k} succeeded")
            except KeyError:
                pass
    if sdb.copy() != expected:
        return _fail("after the batch: copy() differs from the wrapped db")
    COUNTERS["paths"] += 1
    if interesting:
        COUNTERS["nontrivial"] += 1
        if len(SAMPLES) < 3:
            SAMPLES.append({"mask": mask, "ops": concrete([(o[0], o[1]) for o in ops]), "values": "<symbolic>", "aborted": aborted})
    return True


def _pre(bvals, ops, exc_at):
    if len(bvals) != 3 or len(ops) > CFG["maxops"]:
        return False
    if not -1 <= exc_at <= len(ops):
        return False
    for (kind, key, _v) in ops:
        if not (0 <= kind <= 4 and 0 <= key < CFG["nkeys"]):
            return False
    first = CFG.get("first")
    if first is not None:
        if not ops or ops[0][0] != first[0] or (first[1] is not None and ops[0][1] != first[1]):
            return False
    return True


def h_batch(bvals: List[int], ops: List[Tuple[int, int, int]], do_deletes: bool, exc_at: int) -> bool:
    """
    pre: _pre(bvals, ops, exc_at)
    post: _
    """
    return _body(bvals, ops, do_deletes, exc_at)


def r_batch(bvals: List[int], ops: List[Tuple[int, int, int]], do_deletes: bool, exc_at: int) -> bool:
    """
    reachability twin: a committed batch that contains a set after a delete of a pre-existing key and a read through a delete
    pre: _pre(bvals, ops, exc_at)
    post: _
    """
    ok = _body(bvals, ops, do_deletes, exc_at)
    if ok and exc_at == -1 and do_deletes and len(ops) == 2 and ops[0][0] == 1 and ops[1][0] == 2 and ops[0][1] == ops[1][1]:
        return False
    return ok


WARM = {
    "h_batch": lambda cfg: [([5, 6, 7], [(0, 0, 9), (1, 1, 0)][: cfg["maxops"]] if not cfg.get("first") else [(cfg["first"][0], cfg["first"][1] or 0, 3)], True, -1)],
    "r_batch": lambda cfg: [([5, 6, 7], [(0, 0, 9)], True, -1)],
}


def jobs(tier):
    out = []
    if tier == "quick":
        for mask, nkeys in ((0, 2), (1, 2), (2, 2), (3, 2), (5, 3)):
            out.append({"fn": "h_batch", "cfg": {"mask": mask, "maxops": 0, "first": None, "nkeys": nkeys}, "pct": 300, "ppt": 20})
            for kind in range(5):
                out.append({"fn": "h_batch", "cfg": {"mask": mask, "maxops": 2, "first": [kind, None], "nkeys": nkeys, "hard": bool((mask + kind) % 2)}, "pct": 600, "ppt": 20})
    else:
        for mask in (0, 5, 7):
            out.append({"fn": "h_batch", "cfg": {"mask": mask, "maxops": 0, "first": None}, "pct": 300, "ppt": 20})
            for kind in range(5):
                for key in range(3):
                    out.append({"fn": "h_batch", "cfg": {"mask": mask, "maxops": 3, "first": [kind, key], "hard": bool((kind + key) % 2)}, "pct": 1500, "ppt": 20})
    out.append({"fn": "r_batch", "cfg": {"mask": 7, "maxops": 2, "first": None}, "pct": 120, "ppt": 20, "kind": "reach"})
    return out


def run(tier):
    import sys
    return xengine.run_x(sys.modules[__name__], tier)
