"""C18 - Invalid arguments are rejected up front and change nothing.  (Engine X)"""
import sys

from vf import common, xengine

PROPERTY = "C18"
FUNCTIONS = ["trie.validation.validate_is_bytes/validate_length", "trie.hexary.HexaryTrie.__init__/get/set/delete/exists/get_proof/get_from_proof/at_root/traverse/traverse_from/squash_changes + dict syntax",
             "trie.binary.BinaryTrie.__init__/get/set/delete/delete_subtrie/exists + dict syntax", "trie.branches.check_if_branch_exist/get_branch/get_witness_for_key_prefix/if_branch_valid",
             "trie.smt.SparseMerkleTree.__init__/from_db/get/set/delete/exists/branch", "trie.smt.calc_root", "trie.smt.SparseMerkleProof.__init__/update",
             "trie.typing.Nibbles.__new__", "trie.fog.HexaryTrieFog.explore/mark_all_complete/nearest_unknown/nearest_right", "trie.exceptions.MissingTrieNode/MissingTraversalNode/TraversedPartialPath constructors"]
ASSUMPTIONS = [
    "the ill-typed argument is a genuinely symbolic value of Union[int, str, None, float, bytearray, List[int], Tuple[int,...], bool] executed through the real entry point; wrong sizes are a symbolic byte string (len <= 40, != required), a symbolic branch length, a symbolic key_size outside 1..32; malformed nibble sequences are valid nibbles with one symbolic out-of-range int at a symbolic position, non-sequences, or sequences with a non-int element",
    "'changes nothing' = snapshot equality of roots, databases, reference counts, fog serialisation and proof state across all three structures, plus a fixed valid follow-up sequence whose observable results must equal those of a twin run without the refused call",
    "lists/tuples of valid nibbles are legal inputs of traverse / Nibbles / fog methods and are not counted as invalid",
]
BOUNDS = {
    "quick": "49 entry points for ill-typed values, 13 for wrong sizes, 11 for nibble sequences; prior history of 1 operation per structure (prune F and T for the hexary trie) and of 2 operations (prune T)",
    "thorough": "prior histories of 0, 1 and 2 operations x prune in {F,T}",
}
OUTSIDE = "combinations of several invalid arguments in one call; invalid arguments other than the listed kinds (e.g. bytes subclasses)"
NONTRIVIAL_RULE = "every confirmed path is a refused call whose after-state and follow-up were compared"


def jobs(tier):
    out = []
    hists = [(1, False), (1, True), (2, True)] if tier == "quick" else [(h, p) for h in (0, 1, 2) for p in (False, True)]
    for hist, prune in hists:
        for group in ("hex", "bin", "smt"):
            if group != "hex" and prune:
                continue
            out.append({"module": "vf.props.badargs", "fn": "h_badtype", "cfg": {"hist": hist, "prune": prune, "group": group}, "pct": 600 if tier == "quick" else 3000, "ppt": 60})
        out.append({"module": "vf.props.badargs", "fn": "h_badsize", "cfg": {"hist": hist, "prune": prune, "group": "hex"}, "pct": 600 if tier == "quick" else 3000, "ppt": 60})
        out.append({"module": "vf.props.badargs", "fn": "h_badnibbles", "cfg": {"hist": hist, "prune": prune, "group": "hex"}, "pct": 600 if tier == "quick" else 3000, "ppt": 60})
        out.append({"module": "vf.props.badargs", "fn": "h_notnibbles", "cfg": {"hist": hist, "prune": prune, "group": "hex"}, "pct": 600 if tier == "quick" else 3000, "ppt": 60})
        out.append({"module": "vf.props.badargs", "fn": "h_badelement", "cfg": {"hist": hist, "prune": prune, "group": "hex"}, "pct": 600 if tier == "quick" else 3000, "ppt": 60})
    out.append({"module": "vf.props.badargs", "fn": "r_badtype", "cfg": {"hist": 1, "prune": False, "group": "bin"}, "pct": 600, "ppt": 60, "kind": "reach"})
    return out


def run(tier):
    return xengine.run_x(sys.modules[__name__], tier)
