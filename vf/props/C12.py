"""C12 - BinaryTrie is a map with a canonical, history-independent root.  (Engine L)"""
import itertools
import sys

from vf.pylift import lrun

PROPERTY = "C12"
H = "vf.pylift.harnesses:"
ASSUMPTIONS = [
    "all key bits of every operation and of the lookup key are z3 bit-vectors (key lengths 1 and 2 bytes are enumerated, which gives the prefix / extension conflicts); values are atoms of an uninterpreted sort; a path of the symbolic execution is one trie shape, the coverage closure certifies that the explored shapes cover all keys",
    "keccak = injective, well-founded uninterpreted functions (no collisions, no hash inside its own pre-image); values that alias a node encoding are outside the claim",
    "map model: slot j holds (key_j, value_j) while stored; set is refused (NodeOverrideError) exactly for a proper-prefix/extension conflict with a stored key; a refused delete implies the key was absent; a refused delete_subtrie implies no stored key starts with the prefix; a raising call leaves root and the lookup result unchanged",
    "canonical root: checked as history independence (both insertion orders, insert+delete returns to the earlier root, delete-all gives the blank hash, an earlier root still reads its contents); the kv/branch/leaf canonical-shape argument itself is not re-derived by the solver",
]
BOUNDS = {
    "quick": "histories of 2 operations (set then set/delete/delete_subtrie) over key lengths {1,2}x{1,2} with a free symbolic lookup key of length 1 and 2; three 3-operation histories (set,set,delete_subtrie(prefix) / set,set,delete / set,set,delete(absent prefix)) with the lookup key tied to an operation key and one key byte fixed; order independence for two 1-byte keys",
    "thorough": "all 2-operation histories with a free lookup key; all 3-operation histories over key lengths (1,1,1) and (2,2,1) with the lookup key tied to the second operation key, and three sets over 1-byte keys with a free lookup key (the larger grid that was first planned did not finish within an hour on 16 cores); order independence for key lengths (1,1), (1,2)",
}
OUTSIDE = "keys longer than 2 bytes, histories longer than 3, 32-byte values that equal a node hash"


def obligations(tier):
    obs = []

    def add(name, fn, builder, t=3000, **params):
        obs.append({"name": name, "harness": H + fn, "builder": H + builder, "params": params, "timeout_s": min(t, 2400), "query_timeout_ms": 300000 if tier == "quick" else 900000})
    name = "map model / refusal rule / unchanged state on refusal / blank root iff empty"
    if tier == "quick":
        for k2 in (0, 1, 2):
            for klens in itertools.product((1, 2), repeat=2):
                for qlen in (1, 2):
                    add(name, "h_bin_hist", "b_bin_hist", klens=list(klens), kinds=[0, k2], vlen=3, qlen=qlen)
        add(name, "h_bin_hist", "b_bin_hist", klens=[2, 2, 1], kinds=[0, 0, 2], vlen=3, qlen=2, qfrom=1, kfix=[[1], [2], None])
        add(name, "h_bin_hist", "b_bin_hist", klens=[2, 2, 2], kinds=[0, 0, 1], vlen=3, qlen=2, qfrom=0, kfix=[[1], [1], [1]])
        add(name, "h_bin_hist", "b_bin_hist", klens=[2, 2, 1], kinds=[0, 0, 1], vlen=3, qlen=2, qfrom=1, kfix=[[0], [128], None])
        add("root independent of insertion order; delete restores the earlier root; old root readable", "h_bin_order", "b_bin_order", l1=1, l2=1)
    else:
        for k2 in (0, 1, 2):
            for klens in itertools.product((1, 2), repeat=2):
                for qlen in (1, 2):
                    add(name, "h_bin_hist", "b_bin_hist", klens=list(klens), kinds=[0, k2], vlen=3, qlen=qlen)
        for kinds in itertools.product((0, 1, 2), repeat=2):
            for klens in ((1, 1, 1), (2, 2, 1)):
                add(name, "h_bin_hist", "b_bin_hist", klens=list(klens), kinds=[0] + list(kinds), vlen=3, qlen=klens[1], qfrom=1, t=3000)
            if kinds == (0, 0):
                add(name, "h_bin_hist", "b_bin_hist", klens=[1, 1, 1], kinds=[0] + list(kinds), vlen=3, qlen=1, t=3000)
        for l1, l2 in ((1, 1), (1, 2)):
            add("root independent of insertion order; delete restores the earlier root; old root readable", "h_bin_order", "b_bin_order", l1=l1, l2=l2, t=7200)
    return obs


def run(tier):
    return lrun.run_l(sys.modules[__name__], tier)
