"""C10 - NodeIterator enumerates contents in key order; next() is the strict successor.  (Engine X)"""
import sys

from vf import common, xengine
from vf.props import hexquery

PROPERTY = "C10"
FUNCTIONS = ["trie.iter.NodeIterator.next/_get_key_after/_get_next_key/keys/items/values/nodes", "trie.hexary.HexaryTrie.traverse/traverse_from/root_node",
             "trie.fog.HexaryTrieFog.nearest_right/explore", "trie.fog.TrieFrontierCache", "trie.utils.nodes.consume_common_prefix/annotate_node"]
ASSUMPTIONS = [
    "tries are the canonical (oracle-built) tries of the query family's contents sets; the successor query k is a genuinely symbolic byte string",
    "table lifting of the three nibble tables after comparing them with their closed forms (C16 obligation)",
    "keys()/items()/values()/nodes()/next() take no input: the obligation is selected by a symbolic index and executed concretely",
]
BOUNDS = {
    "quick": "64 tries (every <=3-subset of the 7-key pool incl. the empty key, keys prefixing other keys, embedded and hashed nodes); symbolic k with len <= 3",
    "thorough": "every <=4-subset of the 7-key pool x 4 value patterns (379 tries) ; symbolic k with len <= 4",
}
OUTSIDE = "query keys longer than 4 bytes, tries with more than 4 keys, tries that change during iteration"
NONTRIVIAL_RULE = "next(k): a successor exists; iteration: the trie is non-empty"


def jobs(tier):
    seed = common.seed()
    qbase = {"tier": tier, "kpool": "K7", "seed": seed, "maxlen": 3 if tier == "quick" else 4, "lift": True}
    n = len(hexquery.family_for(qbase))
    out = []
    for mi in range(n):
        out.append({"module": "vf.props.hexquery", "fn": "h_next", "cfg": dict(qbase, mi=mi), "pct": 1200, "ppt": 30})
        out.append({"module": "vf.props.hexquery", "fn": "h_iter", "cfg": dict(qbase, mi=mi), "pct": 300, "ppt": 30})
    out.append({"module": "vf.props.hexquery", "fn": "r_next", "cfg": dict(qbase, mi=n - 1), "pct": 300, "ppt": 30, "kind": "reach"})
    return out


def run(tier):
    return xengine.run_x(sys.modules[__name__], tier)
