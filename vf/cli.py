"""bin/check <ID> [--tier quick|thorough] [--replay file]"""
import argparse
import importlib
import json
import os
import sys

from . import common


def main(argv=None):
    ap = argparse.ArgumentParser()
    ap.add_argument("pid")
    ap.add_argument("--tier", default=os.environ.get("VERIF_TIER", "quick"), choices=["quick", "thorough"])
    ap.add_argument("--replay")
    a = ap.parse_args(argv)
    if a.replay:
        from .xworker import replay
        ok, detail = replay(a.replay)
        if ok:
            print("replay: the recorded input no longer violates the property")
            return 0
        print(f"VIOLATION property={a.pid} replay={a.replay}")
        print("   " + str(detail)[:1500])
        return 1
    try:
        mod = importlib.import_module(f"vf.props.{a.pid}")
    except ModuleNotFoundError as e:
        print(f"no check for {a.pid}: {e}")
        return common.EXIT_HARNESS_ERROR
    return mod.run(a.tier)


if __name__ == "__main__":
    sys.exit(main())
